#!/usr/bin/env python3
import sys, json
d = json.load(open(sys.argv[1]))
for k in ['paths','paths_done','paths_panic','paths_abort','obligations','discharged','trivial','sat','unknown','queries','solver_s','wall_s','merged_regions']:
    print(k, d.get(k))
print('errors', d.get('errors'))
print('inconclusive', d.get('inconclusive'))
print('reached', d.get('reached'))
for k, v in sorted((d.get('labels') or {}).items()):
    print('  label', k, v)
for k, v in sorted((d.get('per_harness') or {}).items()):
    print('  harness', k, v)
for v in (d.get('violations') or [])[:int(sys.argv[2]) if len(sys.argv) > 2 else 6]:
    print('VIOL', v['harness'], v['label'], v.get('detail'), 'prefix', v['prefix'])
    print('     ', [(n['label'], hex(x)) for n, x in zip(v['nondets'] or [], v['values'] or [])][:40])
