#!/usr/bin/env python3
"""Per property: which blocks of the files the property is anchored in does the property's
OWN check execute? (evidence/coverage/<ID>.<tier>.txt vs `gosym blocks`).
usage: anchor_coverage.py [tier] [ID ...]   (with IDs: list functions with unexecuted blocks)"""
import json, os, subprocess, sys, collections
VERIF = os.path.dirname(os.path.dirname(os.path.abspath(__file__)))
args = sys.argv[1:]
tier = args.pop(0) if args and args[0] in ("quick", "thorough") else "quick"
env = dict(os.environ, GOFLAGS="-mod=mod", GOPROXY="off")
out = subprocess.run([os.path.join(VERIF, "bin", "gosym"), "blocks", "-tags", "verif"], env=env, capture_output=True, text=True).stdout
universe = {}
for l in out.splitlines():
    if "\t" in l:
        b, pos = l.split("\t")
        universe[b] = pos
props = [json.loads(l) for l in open(os.path.join(VERIF, "properties.jsonl"))]
for p in props:
    pid = p["id"]
    if args and pid not in args:
        continue
    files = set(os.path.basename(f) for f in p["anchors"].get("files", []) if f.endswith(".go"))
    f = os.path.join(VERIF, "evidence", "coverage", "%s.%s.txt" % (pid, tier))
    done = set(open(f).read().split("\n")) if os.path.exists(f) else set()
    tot = [b for b, pos in universe.items() if pos.split(":")[0] in files]
    cov = [b for b in tot if b in done]
    print("%s anchored files: %d / %d blocks (%.0f%%)" % (pid, len(cov), len(tot), 100.0 * len(cov) / max(1, len(tot))))
    if args:
        perfn = collections.defaultdict(list)
        for b in tot:
            if b not in done:
                perfn[(universe[b].split(":")[0], b.rsplit("#", 1)[0])].append(int(universe[b].split(":")[1]))
        for (file, fn), lines in sorted(perfn.items()):
            print("   %-20s %-60s lines %s" % (file, fn.replace("github.com/mlange-42/ark/ecs.", ""), ",".join(map(str, sorted(set(lines))[:12]))))
