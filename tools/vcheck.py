#!/usr/bin/env python3
"""vcheck: run the solver-based check of one property.

  python3 tools/vcheck.py C07 --tier quick|thorough
  python3 tools/vcheck.py --replay evidence/replay/C07-....json

Exit codes: 0 property held on everything explored (possibly with KNOWN-FINDING lines),
            1 VIOLATION found and reproduced natively,
            2 no verdict (engine error / solver unknown / bound exceeded / replay mismatch).
"""
import argparse, json, os, re, shutil, subprocess, sys, tempfile, time, hashlib

VERIF = os.path.dirname(os.path.dirname(os.path.abspath(__file__)))
REPO = os.environ.get("VERIF_REPO", "/repo")
HARNESS_DIR = os.path.join(VERIF, "harness")
GOSYM = os.path.join(VERIF, "bin", "gosym")
GOENV = dict(os.environ, GOFLAGS="-mod=mod", GOPROXY="off")
GOENV.pop("GOTOOLCHAIN", None)  # /repo needs the cached go1.24 toolchain (auto)

sys.path.insert(0, os.path.join(VERIF, "tools"))
import propconf  # noqa: E402


def log(*a):
    print(*a, flush=True)


def ensure_engine():
    src = os.path.join(VERIF, "engine")
    newest = max(os.path.getmtime(os.path.join(src, f)) for f in os.listdir(src) if f.endswith(".go"))
    if os.path.exists(GOSYM) and os.path.getmtime(GOSYM) >= newest:
        return
    os.makedirs(os.path.dirname(GOSYM), exist_ok=True)
    r = subprocess.run(["go", "build", "-mod=vendor", "-o", GOSYM, "."], cwd=src, env=GOENV, capture_output=True, text=True)
    if r.returncode != 0:
        log("engine build failed:\n" + r.stderr)
        sys.exit(2)


def list_harnesses(tags):
    r = subprocess.run([GOSYM, "list", "-repo", REPO, "-harness-dir", HARNESS_DIR, "-tags", tags],
                       env=GOENV, capture_output=True, text=True)
    if r.returncode != 0:
        log("cannot load /repo with harness overlay (does the tree still compile?):\n" + r.stderr[-4000:])
        sys.exit(2)
    return [l.strip() for l in r.stdout.splitlines() if l.startswith("Verif")]


def select(all_h, pid, tier):
    q = [h for h in all_h if h.startswith("Verif%s_" % pid)]
    t = [h for h in all_h if h.startswith("Verif%sT_" % pid)]
    return q + (t if tier == "thorough" else [])


def run_engine(harnesses, tags, tier, conf, extra=()):
    out = tempfile.NamedTemporaryFile(prefix="gosym-", suffix=".json", delete=False)
    out.close()
    jobs = int(os.environ.get("VERIF_JOBS", "16"))
    cmd = [GOSYM, "run", "-tier", tier, "-repo", REPO, "-harness-dir", HARNESS_DIR, "-tags", tags,
           "-harness", ",".join(harnesses), "-j", str(jobs), "-out", out.name,
           "-timeout-ms", str(conf.get("timeout_ms", 30000 if tier == "quick" else 300000)),
           "-max-wall", str(conf.get("max_wall", "600s" if tier == "quick" else "45m")),
           "-max-paths", str(conf.get("max_paths", 400000)),
           "-max-enum", str(conf.get("max_enum", 300)),
           "-unwind", str(conf.get("unwind", 600))] + list(extra)
    r = subprocess.run(cmd, env=GOENV, capture_output=True, text=True)
    try:
        with open(out.name) as f:
            summ = json.load(f)
    except Exception as ex:  # noqa
        summ = None
    os.unlink(out.name)
    return r, summ


def harness_files():
    return sorted(f for f in os.listdir(HARNESS_DIR) if f.endswith(".go") and not f.endswith("_test.go"))


REPLAY_TEST = '''//go:build verif

package ecs

import (
	"encoding/json"
	"fmt"
	"os"
	"testing"
)

var vHarnessTable = map[string]func(){
%s}

type vReplayCase struct {
	Harness string   `json:"harness"`
	Values  []uint64 `json:"values"`
}

func TestVerifReplay(t *testing.T) {
	data, err := os.ReadFile(os.Getenv("VERIF_REPLAY"))
	if err != nil {
		t.Fatal(err)
	}
	var cases []vReplayCase
	if err := json.Unmarshal(data, &cases); err != nil {
		t.Fatal(err)
	}
	for i, c := range cases {
		fn := vHarnessTable[c.Harness]
		if fn == nil {
			fmt.Printf("VREPLAY %%d error=no-such-harness\\n", i)
			continue
		}
		vReplay, vReplayPos, vExhausted, vFailed, vReached = c.Values, 0, false, nil, nil
		vResetGlobals() // the engine starts every path from the initial globals
		panicMsg := ""
		assumeFailed := false
		func() {
			defer func() {
				if x := recover(); x != nil {
					if _, ok := x.(vAssumeFailed); ok {
						assumeFailed = true
					} else {
						panicMsg = fmt.Sprint(x)
						if panicMsg == "" {
							panicMsg = "panic"
						}
					}
				}
			}()
			fn()
		}()
		out, _ := json.Marshal(map[string]any{"i": i, "failed": vFailed, "reached": vReached, "panic": panicMsg,
			"assume_failed": assumeFailed, "exhausted": vExhausted, "used": vReplayPos})
		fmt.Printf("VREPLAY %%s\\n", out)
	}
}
'''


CUR_TIER = "quick"  # tier of the run being replayed (harnesses see it through vthorough())


def native_replay(cases, all_h, tags, race=False):
    """Run the given [{harness, values}] natively; returns list of result dicts (or None on build failure)."""
    if not cases:
        return []
    tmp = tempfile.mkdtemp(prefix="vreplay-")
    try:
        table = "".join('\t"%s": %s,\n' % (h, h) for h in all_h)
        tfile = os.path.join(tmp, "replay_test.go")
        with open(tfile, "w") as f:
            f.write(REPLAY_TEST % table)
        cfile = os.path.join(tmp, "cases.json")
        with open(cfile, "w") as f:
            json.dump([{"harness": c["harness"], "values": c["values"]} for c in cases], f)
        rep = {os.path.join(REPO, "ecs", "zz_verif_" + hf): os.path.join(HARNESS_DIR, hf) for hf in harness_files()}
        rep[os.path.join(REPO, "ecs", "zz_verif_replay_test.go")] = tfile
        ov = os.path.join(tmp, "overlay.json")
        with open(ov, "w") as f:
            json.dump({"Replace": rep}, f)
        env = dict(GOENV, VERIF_REPLAY=cfile, VERIF_TIER=CUR_TIER)
        cmd = ["go", "test", "-tags", tags, "-vet=off", "-count=1", "-overlay", ov, "-run", "^TestVerifReplay$", "-timeout", "20m", "-v"]
        if race:
            cmd.append("-race")
        cmd.append("./ecs")
        r = subprocess.run(cmd, cwd=REPO, env=env, capture_output=True, text=True)
        res = {}
        race_seen = "DATA RACE" in r.stdout or "DATA RACE" in r.stderr
        for line in r.stdout.splitlines():
            if line.startswith("VREPLAY {"):
                d = json.loads(line[len("VREPLAY "):])
                res[d["i"]] = d
        if len(res) != len(cases):
            return {"error": "native replay run failed", "stdout": r.stdout[-3000:], "stderr": r.stderr[-3000:]}
        for d in res.values():
            d["race"] = race_seen
        return [res[i] for i in range(len(cases))]
    finally:
        shutil.rmtree(tmp, ignore_errors=True)


def load_known():
    known, fixed = [], []
    p = os.path.join(VERIF, "known_findings.txt")
    if os.path.exists(p):
        for line in open(p):
            line = line.strip()
            if not line or line.startswith("#"):
                continue
            m = re.match(r"known:\s+property=(\S+)\s+sig=(\S+)\s+(.*)", line)
            if m:
                known.append({"property": m.group(1), "sig": m.group(2), "text": m.group(3)})
            elif line.startswith("fixed:"):
                fixed.append(line)
    return known, fixed


def src_hashes(funcs):
    """hash of each /repo/ecs source file (the encoding is regenerated from these on every run)"""
    h = {}
    d = os.path.join(REPO, "ecs")
    for f in sorted(os.listdir(d)):
        if f.endswith(".go") and not f.endswith("_test.go"):
            h[f] = hashlib.sha256(open(os.path.join(d, f), "rb").read()).hexdigest()[:12]
    return h


def bounds_text(conf, tier):
    """bounds of the property's own families + the cross-cutting families and the tier rule (DESIGN.md section 4)"""
    b = conf.get("bounds_" + tier, conf.get("bounds", ""))
    if b == "same":
        b = conf.get("bounds_quick", "")
    return b + " || " + propconf.COMMON_BOUNDS[tier]


def library_blocks_total():
    """number of basic blocks of package ecs (non-test, harness overlay excluded) in the current tree"""
    try:
        out = subprocess.run([GOSYM, "blocks", "-repo", REPO, "-harness-dir", HARNESS_DIR, "-tags", "verif"], env=GOENV, capture_output=True, text=True, timeout=300).stdout
        return len([l for l in out.splitlines() if "#" in l])
    except Exception:
        return -1


def confirms(v, nat):
    """does the native run reproduce engine violation v?"""
    if nat.get("assume_failed"):
        return False
    if nat.get("crash"):
        return True
    if v["kind"] == "check":
        return v["label"] in (nat.get("failed") or [])
    if v["kind"] == "panic":
        return bool(nat.get("panic"))
    if v["kind"] == "race":
        return bool(nat.get("race"))
    return False


def main():
    global CUR_TIER
    ap = argparse.ArgumentParser()
    ap.add_argument("property", nargs="?")
    ap.add_argument("--tier", default=os.environ.get("VERIF_TIER", "quick"))
    ap.add_argument("--replay")
    ap.add_argument("--only", help="comma-separated harness names (debugging)")
    ap.add_argument("--keep", action="store_true")
    args = ap.parse_args()
    t0 = time.time()
    seed = int(os.environ.get("VERIF_SEED", "0") or 0)
    ensure_engine()

    if args.replay:
        rp = json.load(open(args.replay))
        tags = rp.get("tags", "verif")
        CUR_TIER = rp.get("tier", "quick")
        all_h = list_harnesses(tags)
        res = native_replay([rp], all_h, tags)
        log(json.dumps(res, indent=1))
        if isinstance(res, list) and confirms(rp["violation"], res[0]):
            log("VIOLATION property=%s replay=%s" % (rp["property"], args.replay))
            sys.exit(1)
        sys.exit(0)

    pid = args.property
    conf = propconf.PROPS[pid]
    tier = args.tier
    CUR_TIER = tier
    tconf = dict(conf.get("engine", {}))
    tconf.update(conf.get("engine_" + tier, {}))
    tagsets = conf.get("tagsets", ["verif"])
    evidence_path = os.path.join(VERIF, "evidence", pid + (".json" if REPO == "/repo" else ".altrepo.json"))
    os.makedirs(os.path.join(VERIF, "evidence", "replay"), exist_ok=True)

    known, _fixed = load_known()
    known = [k for k in known if k["property"] == pid]

    total = {"queries_unsat": 0, "queries_sat": 0, "paths": 0, "queries": 0, "obligations": 0, "discharged": 0, "trivial": 0, "sat": 0, "unknown": 0,
             "solver_s": 0.0, "steps": 0, "merged_regions": 0}
    funcs, externals, reached, labels, per_h = set(), set(), {}, {}, {}
    blocks = set()
    inconclusive, errors, samples = [], [], []
    violations, witnesses = [], []
    harness_all = []
    for tags in tagsets:
        all_h = list_harnesses(tags)
        hs = select(all_h, pid, tier)
        if args.only:
            hs = [h for h in hs if h in args.only.split(",")]
        if not hs:
            log("no harnesses for %s under tags %s" % (pid, tags))
            sys.exit(2)
        harness_all += [(h, tags) for h in hs]
        r, summ = run_engine(hs, tags, tier, tconf)
        if summ is None:
            log("engine produced no summary:\n" + r.stderr[-4000:])
            sys.exit(2)
        sys.stderr.write(r.stderr[-2000:])
        for k in total:
            total[k] += summ.get(k, 0) or 0
        funcs.update(summ.get("funcs") or [])
        blocks.update(summ.get("blocks") or [])
        externals.update(summ.get("externals") or [])
        for k, v in (summ.get("reached") or {}).items():
            reached[tags + ":" + k] = reached.get(tags + ":" + k, 0) + v
        for k, v in (summ.get("labels") or {}).items():
            labels[tags + ":" + k] = v
        for k, v in (summ.get("per_harness") or {}).items():
            per_h[tags + ":" + k] = v
        inconclusive += [tags + ": " + s for s in (summ.get("inconclusive") or [])]
        errors += [tags + ": " + s for s in (summ.get("errors") or [])]
        samples += summ.get("samples") or []
        samples += [dict(p, kind="path") for p in (summ.get("path_samples") or [])]
        for v in summ.get("violations") or []:
            v["tags"] = tags
            violations.append(v)
        for w in summ.get("witnesses") or []:
            w["tags"] = tags
            witnesses.append(w)
        # vacuity: every harness must reach at least one vreach label
        for h in hs:
            if not any(k.startswith(tags + ":" + h + "/") for k in reached):
                inconclusive.append("%s: harness %s reached no vreach label (vacuous)" % (tags, h))

    # ---- native replay of counterexamples and of vacuity witnesses (translation validation)
    replays = 0
    confirmed, unconfirmed = [], []
    mismatches = []
    for tags in tagsets:
        all_h = list_harnesses(tags)
        vs = [v for v in violations if v["tags"] == tags]
        ws = [w for w in witnesses if w["tags"] == tags]
        maxw = conf.get("max_witness_replays", 40)
        ws = ws[:maxw]
        race_vs = [v for v in vs if v["kind"] == "race"]
        vs = [v for v in vs if v["kind"] != "race"]
        for v in race_vs:  # one -race run per violation, the scenario repeated to give the detector a chance
            natr = native_replay([{"harness": v["harness"], "values": v["values"]}] * 300, all_h, tags, race=True)
            replays += 1
            if isinstance(natr, dict):
                inconclusive.append("native -race replay failed to run: " + natr.get("stderr", "")[-800:])
                continue
            v["native"] = {"race": natr[0].get("race"), "runs": len(natr)}
            (confirmed if confirms(v, natr[0]) else unconfirmed).append(v)
        cases = [{"harness": v["harness"], "values": v["values"]} for v in vs] + \
                [{"harness": w["harness"], "values": w["values"]} for w in ws]
        if not cases:
            continue
        nat = native_replay(cases, all_h, tags, race=conf.get("race", False))
        if isinstance(nat, dict):
            # the native test binary died (e.g. a fatal runtime error provoked by one case): replay one by one;
            # a case that kills the real build is a reproduced failure of the real code
            nat = []
            for c in cases:
                one = native_replay([c], all_h, tags, race=conf.get("race", False))
                if isinstance(one, dict):
                    blob = one.get("stdout", "") + one.get("stderr", "")
                    crashed = "fatal error" in blob or "SIGSEGV" in blob or "unexpected fault address" in blob or "panic:" in blob
                    nat.append({"assume_failed": False, "failed": None, "reached": [], "panic": "native process crashed" if crashed else "",
                                "crash": crashed, "error": "" if crashed else blob[-600:]})
                else:
                    nat.append(one[0])
        replays += len(cases)
        for v, n in zip(vs, nat[:len(vs)]):
            v["native"] = n
            (confirmed if confirms(v, n) else unconfirmed).append(v)
        for w, n in zip(ws, nat[len(vs):]):
            if n.get("crash") or n.get("error"):
                continue
            ok = (not n["assume_failed"]) and (w["label"] in (n.get("reached") or []))
            if w.get("clean") and (n.get("failed") or n.get("panic")):
                ok = False
            if not ok:
                mismatches.append({"witness": {"harness": w["harness"], "label": w["label"]}, "native": n})

    # ---- verdict
    out_lines = []
    new_violations = []
    known_hits = {}
    for v in confirmed:
        sig = "%s/%s" % (v["harness"], v["label"])
        k = next((k for k in known if k["sig"] == sig), None)
        if k:
            known_hits[sig] = k
        else:
            new_violations.append(v)
    for sig, k in sorted(known_hits.items()):
        out_lines.append("KNOWN-FINDING: property=%s %s (sig=%s)" % (pid, k["text"], sig))
    seen_sig = set()
    for v in new_violations:
        sig = "%s/%s" % (v["harness"], v["label"])
        if sig in seen_sig:
            continue
        seen_sig.add(sig)
        rp = os.path.join(VERIF, "evidence", "replay", "%s-%s-%s.json" % (pid, v["harness"], re.sub(r"\W+", "_", v["label"])))
        with open(rp, "w") as f:
            json.dump({"property": pid, "harness": v["harness"], "tags": v["tags"], "tier": tier, "values": v["values"],
                       "nondets": v["nondets"], "violation": {"label": v["label"], "kind": v["kind"], "detail": v.get("detail", "")},
                       "native": v.get("native")}, f, indent=1)
        out_lines.append("VIOLATION property=%s replay=%s" % (pid, os.path.relpath(rp, VERIF)))
        out_lines.append("  harness=%s check=%s kind=%s %s" % (v["harness"], v["label"], v["kind"], v.get("detail", "")))
    for v in list(unconfirmed):
        sig = "%s/%s" % (v["harness"], v["label"])
        k = next((k for k in known if k["sig"] == sig), None)
        if k:  # a listed finding stays a finding even when this run's native attempt did not hit it (e.g. a race)
            known_hits[sig] = k
            unconfirmed.remove(v)
    out_lines = ["KNOWN-FINDING: property=%s %s (sig=%s)" % (pid, k["text"], sig) for sig, k in sorted(known_hits.items())] + \
                [l for l in out_lines if not l.startswith("KNOWN-FINDING")]
    for v in unconfirmed:
        inconclusive.append("counterexample for %s/%s did not reproduce natively (encoder or harness defect): native=%s" %
                            (v["harness"], v["label"], json.dumps(v.get("native"))))
    for m in mismatches:
        inconclusive.append("vacuity witness did not replay natively: %s" % json.dumps(m))

    scan_sites = None
    if conf.get("scan"):
        r = subprocess.run([GOSYM, "scan", "-repo", REPO, "-harness-dir", HARNESS_DIR, "-tags", tagsets[0]], env=GOENV, capture_output=True, text=True)
        try:
            scan_sites = json.loads(r.stdout)
        except Exception:
            inconclusive.append("nondeterminism site scan failed: " + r.stderr[-500:])
            scan_sites = []
        for st in scan_sites:
            if st["kind"] == "map-range" and st["func"] not in funcs:
                inconclusive.append("map-range site %s (%s) is not executed by any harness of this property" % (st["func"], st["pos"]))
            if st["kind"] in ("go", "select", "pointer-to-integer") or st["kind"].startswith("call math/rand") or st["kind"].startswith("call crypto/rand"):
                inconclusive.append("unmodelled source of run-to-run variation in the library: %s in %s (%s)" % (st["kind"], st["func"], st["pos"]))

    wall = time.time() - t0
    level = conf.get("level", "model_checking")
    cov = {
        "states": total["paths"], "transitions": total["queries"],
        "traces_validated_against_impl": replays,
        "obligations": total["obligations"], "discharged": total["discharged"],
        "discharged_by_solver": total["discharged"] - total["trivial"], "discharged_by_constant_folding": total["trivial"],
        "sat": total["sat"], "unknown": total["unknown"],
        "solver_queries_unsat": total["queries_unsat"], "solver_queries_sat": total["queries_sat"],
        "explanation_of_counts": "states = symbolic paths executed; transitions = solver queries (branch/alternative feasibility, concretisation, obligations); "
                                 "solver_queries_unsat counts refuted alternatives and discharged obligations: in the world harnesses the real code's decisions are "
                                 "confronted with the model's predicate as branch feasibility, so most final checks are concrete on each path",
        "solver_s": round(total["solver_s"], 2), "ssa_instructions_executed": total["steps"],
        "if_converted_regions": total["merged_regions"],
        "harnesses": [h for h, _ in harness_all], "tagsets": tagsets,
        "per_harness": per_h, "labels": labels, "vacuity_witnesses": reached,
        "functions_encoded": sorted(f for f in funcs if not f.startswith("github.com/mlange-42/ark/ecs.Verif") and ".v" not in f.split("/")[-1][:6]),
        "externals_executed_from_ssa": sorted(externals),
        "source_hashes": src_hashes(funcs),
        "library_basic_blocks_executed": len(blocks),
        "library_basic_blocks_total": library_blocks_total(),
        "bounds": bounds_text(conf, tier),
        "outside_claim": conf.get("outside", ""),
        "stubs": propconf.STUBS,
        "samples": samples[:12] or [{"note": "no non-trivial obligation"}],
        "known_findings_hit": sorted(known_hits),
        "nondeterminism_sites_scanned": scan_sites,
        "inconclusive": inconclusive, "errors": errors,
        "solver": "z3 4.8.12 (z3 -in, push/pop); thorough tier cross-checks with z3-new and cvc5 via tools/xcheck.py",
        "exhaustive": False,
    }
    if level == "translation_validation":
        cov["programs"] = len(harness_all)
        cov["disagreements_checked"] = total["obligations"]
    ev = {"property_id": pid, "tier": tier, "seed": seed, "level": level, "coverage": cov,
          "assumptions": conf.get("assumptions", []) + propconf.COMMON_ASSUMPTIONS,
          "wall_s": round(wall, 2), "violations": len(seen_sig)}
    with open(evidence_path, "w") as f:
        json.dump(ev, f, indent=1)
    if REPO == "/repo":  # keep the last evidence of each tier next to <id>.json (= the last run of either tier)
        shutil.copyfile(evidence_path, os.path.join(VERIF, "evidence", "%s.%s.json" % (pid, tier)))
    if REPO == "/repo":  # block coverage of this check (union over harnesses and tag sets), input of tools/coverage.py
        os.makedirs(os.path.join(VERIF, "evidence", "coverage"), exist_ok=True)
        with open(os.path.join(VERIF, "evidence", "coverage", "%s.%s.txt" % (pid, tier)), "w") as f:
            f.write("\n".join(sorted(blocks)) + "\n")

    for l in out_lines:
        log(l)
    log("%s %s: harnesses=%d paths=%d obligations=%d discharged=%d violations=%d known=%d inconclusive=%d errors=%d solver=%.1fs wall=%.1fs" % (
        pid, tier, len(harness_all), total["paths"], total["obligations"], total["discharged"], len(seen_sig), len(known_hits),
        len(inconclusive), len(errors), total["solver_s"], wall))
    if seen_sig:
        sys.exit(1)
    if errors or inconclusive:
        for s in (errors + inconclusive)[:20]:
            log("INCONCLUSIVE: " + s[:1500])
        sys.exit(2)
    sys.exit(0)


if __name__ == "__main__":
    main()
