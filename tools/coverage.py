#!/usr/bin/env python3
"""Which basic blocks of package ecs do the checks execute (symbolically)?

Union of evidence/coverage/<ID>.<tier>.txt (written by vcheck.py) against the universe
`gosym blocks` computes from /repo's current source. Prints per-file figures and the
functions with unexecuted blocks: the list of holes to close with harnesses.

usage: coverage.py [tier] [--funcs] [--file substr]
"""
import glob, os, subprocess, sys, collections

VERIF = os.path.dirname(os.path.dirname(os.path.abspath(__file__)))
tier = "quick"
args = [a for a in sys.argv[1:]]
if args and not args[0].startswith("--"):
    tier = args.pop(0)
show_funcs = "--funcs" in args
fsub = args[args.index("--file") + 1] if "--file" in args else ""
env = dict(os.environ, GOFLAGS="-mod=mod", GOPROXY="off")
out = subprocess.run([os.path.join(VERIF, "bin", "gosym"), "blocks", "-tags", "verif"], env=env, capture_output=True, text=True).stdout
universe = {}
for l in out.splitlines():
    if "\t" in l:
        b, pos = l.split("\t")
        universe[b] = pos
done = set()
pat = "*.txt" if tier == "all" else "*.%s.txt" % tier
for f in glob.glob(os.path.join(VERIF, "evidence", "coverage", pat)):
    done.update(x for x in open(f).read().split("\n") if x)
perfile = collections.defaultdict(lambda: [0, 0])
perfunc = collections.defaultdict(lambda: [0, 0, ""])
for b, pos in universe.items():
    fn = b.rsplit("#", 1)[0]
    file = pos.split(":")[0]
    perfile[file][1] += 1
    perfunc[fn][1] += 1
    perfunc[fn][2] = file
    if b in done:
        perfile[file][0] += 1
        perfunc[fn][0] += 1
tot = sum(v[1] for v in perfile.values())
cov = sum(v[0] for v in perfile.values())
print("blocks executed: %d / %d (%.1f%%)  [tier=%s]" % (cov, tot, 100.0 * cov / max(tot, 1), tier))
for f, (c, t) in sorted(perfile.items(), key=lambda kv: kv[1][0] / max(kv[1][1], 1)):
    if fsub in f:
        print("  %-28s %4d / %4d  %5.1f%%" % (f, c, t, 100.0 * c / t))
if show_funcs:
    print("functions with unexecuted blocks:")
    for fn, (c, t, file) in sorted(perfunc.items(), key=lambda kv: (kv[1][2], kv[0])):
        if c < t and fsub in file:
            missing = sorted(int(b.rsplit("#", 1)[1]) for b in universe if b.rsplit("#", 1)[0] == fn and b not in done)
            lines = sorted(set(universe["%s#%d" % (fn, i)].split(":")[1] for i in missing), key=int)
            print("  %-22s %-70s %d/%d  lines %s" % (file, fn.replace("github.com/mlange-42/ark/ecs.", ""), c, t, ",".join(lines[:14])))
