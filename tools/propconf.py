"""Per-property configuration of the solver-based checks (bounds, assumptions, engine limits).

Harness selection is by naming convention: Verif<ID>_* run in the quick tier,
Verif<ID>T_* additionally in the thorough tier."""

STUBS = [
    "reflect.TypeFor/TypeOf/ArrayOf/New and reflect.Type.{Size,Kind,Name,NumField,Field,Elem,Len}: computed from go/types with gc/amd64 sizes",
    "reflect.Value.{Elem,Addr,UnsafePointer,Index,Slice,Set,SetZero,Len}, reflect.Copy: typed cell copies on the engine heap (fresh arrays zero)",
    "unsafe.Add / unsafe.Pointer conversions: (allocation, byte offset) pointers; out-of-allocation access is reported as memory-safety violation",
    "copyPtr's (*[MaxInt32]byte)(p)[:n:n] is a raw byte view; copy() over it is a memmove (cell-wise when layouts agree, byte-wise otherwise)",
    "sync.Mutex Lock/Unlock: state flag (double lock = deadlock report); no scheduler",
    "fmt.Sprintf/Errorf: opaque string / non-nil error",
    "time.Now/time.Since: fresh symbolic instants constrained non-decreasing",
    "append growth: max(2*cap, needed) (Go leaves the amount unspecified); in-place when capacity allows",
    "map iteration: insertion order unless the harness selects a permutation (vmaporder)",
    "package initialisers of dependencies are not run; ecs.init is executed by the engine",
]

COMMON_ASSUMPTIONS = [
    "golang.org/x/tools go/ssa (v0.29.0) builds faithful SSA of /repo's current sources (generics instantiated)",
    "the engine's SSA-to-SMT translation (validated per run by replaying solver models of every reached harness end natively)",
    "z3 4.8.12 answers are correct; any (error or unknown makes the run inconclusive",
    "amd64 layout (types.SizesFor gc/amd64)",
    "bounds listed under coverage.bounds; nothing is claimed outside them",
]

LEVEL_TEXT = ("Bounded symbolic model checking of the real Go code: each harness executes the implementation's SSA symbolically; "
              "every assertion is decided by z3 for all values of the symbolic inputs/pre-state within the stated bounds; "
              "counterexamples are replayed natively before being reported.")
COMMON_BOUNDS = {
    "quick": ("every harness named Verif<ID>_* (evidence.coverage.harnesses lists them), including the families aliased from other "
              "properties in harness/zz_aliases.go; world shapes with the six component IDs at 60..65, a populated zero-target table, a "
              "populated {A,B,P} table, 2 (plain) / 5 (relation) standing registered filters; ONE operation after the shape unless the "
              "harness name says otherwise; matrices enumerate every listed combination; symbolic: all component values, filter masks "
              "(3 x 256 bit), relation target handles (id and generation), observer masks and flags, clock instants and time limits, "
              "codec inputs; per-query solver timeout 30 s, wall budget 10 min, loops unrolled to 600 visits"),
    "thorough": ("the quick harnesses run with the component IDs at 60..65 AND at 0..5, 124..129, 188..193, 248..253 (every mask word and "
                 "word boundary), plus the Verif<ID>T_* harnesses at one placement: two-operation histories over all 13 operations and "
                 "three-operation histories over 6 (choices narrowed to the first 3 / 2 alternatives), all shape variants, 3 observers per "
                 "dispatcher, 4-step query interleavings, filter life cycles of 4 steps, registry at its maximum; per-query solver "
                 "timeout 300 s, wall budget 45 min"),
}

LEVEL_NOTE = ("Trusted: go/ssa, the engine's SSA-to-SMT translation and stubs (listed in evidence.coverage.stubs; validated each run by replaying "
              "solver models of reached harness ends natively), z3. Inductive-step harnesses assume their stated invariant characterises reachable states.")


def P(bounds_quick, bounds_thorough, outside, assumptions=(), **kw):
    d = {"level": "model_checking", "level_text": LEVEL_TEXT, "level_note": LEVEL_NOTE,
         "bounds_quick": bounds_quick, "bounds_thorough": bounds_thorough, "outside": outside, "assumptions": list(assumptions)}
    d.update(kw)
    return d


PROPS = {
    "C01": P("[also: the same steps through the typed API (Map2.NewEntity/Add, Exchange1.Exchange, Map2.Remove); table-level lemmas Remove/Add/AddAll/Reset with SYMBOLIC length, rows and index at capacity 4; invariants include the archetype graph (edges connect masks differing in exactly that bit), registry, pool free chain and filter cache] shapes plain (archetypes {A},{A,B},{B,T},{A,P}; 3 removal variants: swapped row, swapped pointer row, last row) and relation (2 parents, 5 children over R1/R2 in 4 tables; variants: freed table + recycled parent id, emptied tables) built by the real API with capacity 1, component IDs 60..65 (straddling the first mask word), all growable slices clipped to len (every append reallocates); EVERY component value symbolic; one operation NewEntityRel/AddRel/Remove/Exchange/RemoveEntity/CopyEntity/Map1.Set with every entity and every 1-2 component list; after it: ghost model (mask, values, targets, liveness of every tracked handle) agrees, new components read zero, INV (index bijection, tables, archetypes, relation indices, zero rows) holds",
             "quick plus pad 0/124/250 (top IDs 250..255), capacity 2, all shape variants, and all two-operation histories from both shapes",
             "more than 12 entities / 2 operations after the shape; typed mappers of arity > 2 (see C14); batch forms (C06)",
             ["INV as written in harness/world.go characterises consistent storage; the ghost model update is the documented effect (DESIGN.md A.1)"]),
    "C04": P("[also: scenario archetype move without naming the relation -> common target dies -> both freed tables recycled for new targets -> target death / add] relation shape as C01: SetRelations and RemoveEntity of every tracked entity (parents, children, dead handles) in 3 variants incl. emptied relation tables and a recycled parent id; relation index invariant (I-rel) and ghost targets checked after",
             "all 5 variants, pads 126/190, two-operation histories incl. Shrink", "RemoveEntities batch with several targets (C06 harness); chains deeper than 1"),
    "C09": P("[also: NewBatchFn into a non-empty table with create / add-relation observers] checking callbacks for all 7 built-in event types during every single operation of the C01 step harnesses (both shapes, valid calls): entity alive, is the affected entity, in exactly one row (Filter0 query from inside the callback), composition old (removals) / new (others), values and targets current, lock state as documented; emitted event multiset equals the documented one; batch AddBatch(relation)/RemoveBatch(relation)/RemoveEntities/SetRelationsBatch with symbolic filter: phase (removal events before any change, others after all), once per affected entity, locked",
             "same", "user callbacks that mutate; more than one observer per event type (C08)"),
    "C19": P("Stats() after shape + one structural operation (plain: new/remove/copy/shrink of every entity; relation: 8 table scenarios incl. target death with swap-removed table lists, recycling, Shrink), with Stats called before / between or not at all: all absolute laws of the statement against the real tables and the model, and incremental == fresh (field-wise, every archetype and table)",
             "same", "component type name strings; more than 2 operations between Stats calls"),
    "C11": P("isTrivial over a symbolic type descriptor of depth <= 1 (all 26 kinds at every node, structs of <= 3 fields, arrays): trivial implies pointer-free; registry flags of the harness types; I-zero (cells in rows >= len are zero, incl. pointer-bearing columns) and zero-on-add after RemoveEntity/Remove/New/batch Remove/Shrink steps; every raw (no write barrier) copy over a pointer-bearing cell is reported by the engine as memory-safety violation in ALL harnesses",
             "depth 2 descriptors", "garbage collection running concurrently, finalizer-observed collectability (Go runtime not encodable): only the storage-level sufficient conditions are decided",
             ["zero-length arrays of pointer types are treated as pointer-bearing (conservative)"]),
    "C14": P("[also: the single-component mapper Map[T] incl. relation variant] generated from one template per type (tools/gen_c14.py): Map1-12 (NewEntityFn, Get, HasAll, Set, Remove, AddFn, NewBatchFn; relation index at arities 1,2,5,12), Filter/Query0-8 (Next, Entity, Get, Count, EntityAt vs UnsafeQuery; relations at 1,2,4,8), Exchange1-8 (Exchange, AddFn, Remove, ExchangeBatchFn), Observer1-4: component types of pairwise different sizes (4..48 bytes), >= 2 rows per table, symbolic values; k-th typed pointer == Unsafe.Get(e, ids[k]), values agree in both directions, effects (Has/IDs/table) equal to the ID-based call",
             "same", "the code generator internal/generate itself (only the generated files in the tree are executed); Map batch variants beyond NewBatchFn (C06); arities are exhaustive for the listed methods",
             level="translation_validation"),
    "C20": P("the same harnesses under the four tag sets {}, {ark_tiny}, {ark_debug}, {ark_tiny,ark_debug}: mask algebra and filter.matches for all masks, FireAdd/FireRemove with symbolic observers, lock step, toTypes at counts {1,5,63,64}, model-based steps (Add, Exchange, RemoveEntity incl. rejected calls) and symbolic-filter query walks on shapes with component IDs 3..8, and misuse calls (query access before Next / after exhaustion / after Close, Set/Get/GetRelation of a missing component) with the default build's panic/no-panic outcome as the common expectation",
             "same", "histories with more than 64 component types (excluded by the property); panic messages",
             ["a harness whose checks pin results and panic/no-panic completely and passes under all four builds shows the builds equivalent on what it explores (equivalence via a common specification, not a product program)"],
             level="translation_validation", tagsets=["verif", "verif,ark_tiny", "verif,ark_debug", "verif,ark_tiny,ark_debug"]),
    "C12": P("4 relation-world scenarios (target of two relation columns dies -> FreeTable map ranges; Reset then recycling of freed tables with different capacities, emptying, Shrink; target death + recycling; Shrink + recycling) executed twice: identity iteration order vs each of 24 permutation numbers applied to EVERY ranged map; digests (all issued handles, Filter0 and relation-query iteration order with targets, entity/archetype/table statistics) must be equal; SSA scan of package ecs listing every map range, goroutine, select, clock/random call and pointer-to-integer conversion: every map-range site must be executed by a scenario, any other source is reported",
             "same", "different OS processes / hash seeds are represented by arbitrary map iteration order (the only process-dependent input the scan finds); the Go runtime itself; scenarios beyond the four",
             ["map iteration order is the only source of run-to-run variation (established by the SSA scan, part of every run)"], scan=True),
    "C13": P("two threads over a relation world, each: Query (walk with Get/Entity), second Query with Count/EntityAt/Close; scenarios: same Filter2 warmed / first use, registered, per-query relation targets (also after a Batch call left a backing array in the filter), registered + per-query targets, two different filters incl. an unsafe query; thread-modular lockset analysis over ALL accesses to pre-existing memory and maps (a conflicting pair with disjoint locksets is a race), results exact per thread, world unlocked after join; counterexamples replayed with real goroutines under go test -race (30 repetitions)",
             "same", "more than two threads (races are pairwise and all threads run the same code; the 64-lock limit is C07); user code touching the same component memory from two queries; schedules are not enumerated: the second thread is analysed on the state the first one leaves",
             ["mutexes are the only synchronisation primitive in the library (SSA scan: no go/select/atomic)", "a conflicting access pair with disjoint locksets is unordered in some schedule"]),
    "C10": P("[also: batch preconditions (component present/missing, dead target, missing relation target, mixed selection) and creation of relation components with the target omitted] every rejected call of the C01/C04 step harnesses (dead entity: never reused and recycled id; duplicate / already present / missing component; dead or recycled relation target; exchange of same component) must panic and leave model, INV and lock state unchanged",
             "same", "batch operations (lock state covered by C07); *Unchecked accessors; typed arities > 2"),
    "C05": P("registered Filter1/Filter2 with FULLY symbolic with/without masks and symbolic relation target (filter or per query) over both shapes: the cached walk/Count equals the model set (= uncached semantics); register/unregister bookkeeping",
             "same plus cache invariance under one following operation", "more than one registered filter at a time; open queries across register/unregister (known design gap, see DESIGN)"),
    "C06": P("AddBatchFn, RemoveBatch, ExchangeBatchFn (plain and relation-removing: several source tables into one destination), SetRelationsBatch, RemoveEntities, NewBatchFn/NewEntities over both shapes with a FULLY symbolic batch filter (+ symbolic relation target): selection = model set before the change, per-entity effect = single operation, callback exactly once per selected entity with that entity's pointer, world locked in callbacks, INV after",
             "same with all shape variants", "batches creating more than 3 entities; iteration order"),
    "C02": P("[also: RemoveEntity/CopyEntity through stale handles (never reused, recycled id) on the relation shape; removal of dead handles after dump/load] entity pool of 4 and 6 slots (2 reserved), every id/generation/free-chain content satisfying I-pool, tight slice capacity; one step of Get / Recycle (+ re-issue) with an arbitrary previously issued handle as observer; Recycle of reserved ids",
             "same", "generation wrap after 2^32 recycles of one id (assumed not to happen); forged handles with ids never issued; world-level creators are covered by C01/C06 harnesses",
             ["I-pool with ghost alive/rank/maxGen describes reachable pools"]),
    "C03": P("[also: filter builder API (With/Without/Exclusive, unsafe Without/Exclusive) yields the modelled filter; unsafe query walks after 9 structural scenarios (target death, table recycling with the same surviving target, Shrink)] unsafe, Query1 and Query2 walks + Count + EntityAt(symbolic i) over both shapes with FULLY symbolic filter masks (256-bit with / without / hasWithout) and a symbolic relation target handle (id and generation: alive, dead, recycled, zero), yielded pointers/targets compared with random access; mask algebra (Get/Set/Clear/Not/OrI/Contains/ContainsAny/Equals/IsZero/newMask/TotalBitsSet) and filter.matches/Exclusive for ALL 256-bit masks and bit positions; query walks: see C03 world harnesses",
             "same", "iteration order"),
    "C08": P("[also: batch dispatch over several tables with 2 symbolic observers (per-entity exactness of the early-out optimisation), SetRelations with two relations of which only some change, custom events through World.Event(...).Emit, observers unregistering observers inside callbacks] each of the 9 dispatchers (FireCreateEntity, FireRemoveEntity, FireCreateEntityRel, FireRemoveEntityRel, FireAdd, FireRemove, FireSet, FireSetRelations, FireCustom) with 2 observers whose three 256-bit masks and flags are symbolic, aggregates symbolic under I-obs, earlyOut symbolic, transition masks fully symbolic; RemoveObserver at every position of 2 observers; AddObserver onto an arbitrary 1-observer state for 9 event types x 32 observer specs",
             "3 observers per dispatcher; RemoveObserver with 3 observers", "more than 3 observers per event type; observer order",
             ["doc_pred is the rule of docs/content/events (all observed components affected together; With/Without against the entity composition)"]),
    "C15": P("Shrink from both shapes (capacity 2, emptied relation tables): model, INV (incl. relation indices) unchanged, reports no remaining work (clock assumed < 1h per call); capPow2, CanShrink/Shrink target and Extend growth arithmetic for ALL uint32 len/cap/minCapacity up to 2^31", "same", "capacities above 2^31 (uint32 overflow of capPow2)"),
    "C16": P("World.Reset from both shapes holding registered filters (with relation target), an observer (3 event types incl. 255), a resource and a used stats object: FRESH post-state (no handle alive, pool/index empty, all tables empty, relation tables free exactly once, indices empty, cache/observers/resources empty, unlocked, INV), nothing fires afterwards, re-registration works; then (optional Shrink and) a new population of 8 entities incl. 3 relation targets and one further operation satisfy the C01 model checks; observerManager.Reset from an arbitrary I-obs state with 1 (quick) or 2 observers, for EVERY event type 0..255", "same plus 2 observers", "see DESIGN"),
    "C17": P("MarshalBinary/AppendBinary/UnmarshalBinary for all 2^64 handles; inputs of every length 0..12 except 8 rejected with the entity unchanged (real encoding/binary SSA executed)", "same", "JSON codec (encoding/json not modelled); inputs longer than 12 bytes"),
    "C18": P("[also: ComponentID/TypeID/ComponentIDs/ComponentInfo, ResourceID/AddResource/GetResource/Resource[T]/ResourceIDs/ResourceType] registry step (known id stable, new id = count, overflow panics without consuming, unregisterLast) for counts 0..2 and max-2..max; toTypes for counts 0..3 and {64,65,255,256} with masks {lowest, one symbolic position, highest}; locked registration; Resources as a map for all id pairs",
             "toTypes additionally at counts 63,127,128,129,191,192,193", "masks with more than 3 set bits in toTypes (popcount concretisation)"),
    "C07": {
        "level": "model_checking",
        "level_text": "Bounded symbolic model checking: one inductive step of each lock/bit-pool operation from an arbitrary invariant-satisfying state is decided by z3 for every value of every symbolic variable within the stated bounds.",
        "level_note": "Trusted: go/ssa, the engine's translation (validated by native replay of solver models each run), z3; the invariant is assumed to characterise reachable pool states.",
        "bounds_quick": "[also: all interleavings of 3 actions over 3 query slots (typed, unsafe, cached: open / advance / close / attempted NewEntity) with the model locked-iff-some-query-open; every structural operation incl. batch forms, Reset, NewEntities, new component registration rejected without effect while a query is open, reads/writes/emit/nested queries work] bit pool: all 64-slot arrays with symbolic length<=8 plus the exhausted pool (length=64, available=0); every lock mask over those; one step of Get/Recycle/Reset/Lock/Unlock from an arbitrary state satisfying the free-chain invariant",
        "bounds_thorough": "as quick plus length<=16",
        "outside": "more than 64 simultaneous locks (specified panic); histories are covered through the inductive invariant only",
        "assumptions": ["ghost ranks describe the free chain (invariant invBitPool); pre-states not satisfying it are not considered reachable"],
    },
}
