"""Per-property configuration of the solver-based checks (bounds, assumptions, engine limits).

Harness selection is by naming convention: Verif<ID>_* run in the quick tier,
Verif<ID>T_* additionally in the thorough tier."""

STUBS = [
    "reflect.TypeFor/TypeOf/ArrayOf/New and reflect.Type.{Size,Kind,Name,NumField,Field,Elem,Len}: computed from go/types with gc/amd64 sizes",
    "reflect.Value.{Elem,Addr,UnsafePointer,Index,Slice,Set,SetZero,Len}, reflect.Copy: typed cell copies on the engine heap (fresh arrays zero)",
    "unsafe.Add / unsafe.Pointer conversions: (allocation, byte offset) pointers; out-of-allocation access is reported as memory-safety violation",
    "copyPtr's (*[MaxInt32]byte)(p)[:n:n] is a raw byte view; copy() over it is a memmove (cell-wise when layouts agree, byte-wise otherwise)",
    "sync.Mutex Lock/Unlock: state flag (double lock = deadlock report); no scheduler",
    "fmt.Sprintf/Errorf: opaque string / non-nil error",
    "time.Now/time.Since: fresh symbolic instants constrained non-decreasing",
    "append growth: max(2*cap, needed) (Go leaves the amount unspecified); in-place when capacity allows",
    "map iteration: insertion order unless the harness selects a permutation (vmaporder)",
    "package initialisers of dependencies are not run; ecs.init is executed by the engine",
]

COMMON_ASSUMPTIONS = [
    "golang.org/x/tools go/ssa (v0.29.0) builds faithful SSA of /repo's current sources (generics instantiated)",
    "the engine's SSA-to-SMT translation (validated per run by replaying solver models of every reached harness end natively)",
    "z3 4.8.12 answers are correct; any (error or unknown makes the run inconclusive",
    "amd64 layout (types.SizesFor gc/amd64)",
    "bounds listed under coverage.bounds; nothing is claimed outside them",
]

PROPS = {
    "C07": {
        "level": "model_checking",
        "level_text": "Bounded symbolic model checking: one inductive step of each lock/bit-pool operation from an arbitrary invariant-satisfying state is decided by z3 for every value of every symbolic variable within the stated bounds.",
        "level_note": "Trusted: go/ssa, the engine's translation (validated by native replay of solver models each run), z3; the invariant is assumed to characterise reachable pool states.",
        "bounds_quick": "bit pool: all 64-slot arrays with symbolic length<=8 plus the exhausted pool (length=64, available=0); every lock mask over those; one step of Get/Recycle/Reset/Lock/Unlock from an arbitrary state satisfying the free-chain invariant",
        "bounds_thorough": "as quick plus length<=16",
        "outside": "more than 64 simultaneous locks (specified panic); histories are covered through the inductive invariant only",
        "assumptions": ["ghost ranks describe the free chain (invariant invBitPool); pre-states not satisfying it are not considered reachable"],
    },
}
