#!/usr/bin/env python3
"""Confirm a seeded breaking change independently, store it under /verif/seeded/<name>/ and run our check against it.

usage: confirm_seed.py <name> <property> <dir with patch.diff, zz_seed_demo_test.go, NOTES.md> [--tier quick]
"""
import json, os, shutil, subprocess, sys, time
VERIF = os.path.dirname(os.path.dirname(os.path.abspath(__file__)))
ENV = dict(os.environ, GOFLAGS="-mod=mod", GOPROXY="off")

def sh(cmd, cwd=None, timeout=1500):
    r = subprocess.run(cmd, shell=True, cwd=cwd, env=ENV, capture_output=True, text=True, timeout=timeout)
    return r.returncode, (r.stdout + r.stderr)

name, prop, src = sys.argv[1], sys.argv[2], sys.argv[3]
tier = "quick"
wt = "/tmp/confirm-" + name
sh("git -C /repo worktree remove --force %s" % wt)
rc, out = sh("git -C /repo worktree add --detach %s HEAD" % wt)
assert rc == 0, out
res = {"name": name, "property": prop}
try:
    rc, out = sh("git apply %s/patch.diff" % src, cwd=wt)
    res["patch_applies"] = rc == 0
    assert rc == 0, out
    rc, out = sh("go build ./... && go test -vet=off -count=1 ./...", cwd=wt)
    res["suite_passes_with_patch"] = rc == 0
    shutil.copy(os.path.join(src, "zz_seed_demo_test.go"), os.path.join(wt, "ecs", "zz_seed_demo_test.go"))
    rc, out = sh("go test -vet=off -count=1 -run 'Seed|ZZ' ./ecs", cwd=wt)
    res["demo_fails_with_patch"] = rc != 0
    res["demo_output_with_patch"] = out[-1500:]
    sh("git apply -R %s/patch.diff" % src, cwd=wt)
    rc, out = sh("go test -vet=off -count=1 -run 'Seed|ZZ' ./ecs", cwd=wt)
    res["demo_passes_without_patch"] = rc == 0
finally:
    sh("git -C /repo worktree remove --force %s" % wt)
ok = res.get("suite_passes_with_patch") and res.get("demo_fails_with_patch") and res.get("demo_passes_without_patch")
res["confirmed"] = bool(ok)
print(json.dumps({k: v for k, v in res.items() if k != "demo_output_with_patch"}, indent=1))
if not ok:
    sys.exit(1)
dst = os.path.join(VERIF, "seeded", name)
os.makedirs(dst, exist_ok=True)
for f in ("patch.diff", "zz_seed_demo_test.go", "NOTES.md"):
    if os.path.exists(os.path.join(src, f)):
        shutil.copy(os.path.join(src, f), os.path.join(dst, f))
# run our check against a scratch worktree of /repo with the patch applied (VERIF_REPO), never /repo itself
wt2 = "/tmp/confirm-check-" + name
sh("git -C /repo worktree remove --force %s" % wt2)
rc, out = sh("git -C /repo worktree add --detach %s HEAD" % wt2)
assert rc == 0, out
try:
    rc, out = sh("git apply %s/patch.diff" % dst, cwd=wt2)
    assert rc == 0, out
    t0 = time.time()
    env2 = dict(ENV, VERIF_REPO=wt2)
    r = subprocess.run("python3 tools/vcheck.py %s --tier %s" % (prop, tier), shell=True, cwd=VERIF, env=env2, capture_output=True, text=True, timeout=3000)
    rc, out = r.returncode, r.stdout + r.stderr
    res["check_cmd"] = "VERIF_REPO=<worktree with patch> python3 tools/vcheck.py %s --tier %s" % (prop, tier)
    res["check_exit"] = rc
    res["check_wall_s"] = round(time.time() - t0, 1)
    res["check_output"] = [l for l in out.splitlines() if l.startswith(("VIOLATION", "KNOWN", "  harness=", prop, "INCONCLUSIVE"))][:12]
    res["detected"] = rc == 1
finally:
    sh("git -C /repo worktree remove --force %s" % wt2)
print("check exit", res["check_exit"], res["check_output"])
meta = {"property": prop, "breaks": open(os.path.join(dst, "NOTES.md")).read()[:1500] if os.path.exists(os.path.join(dst, "NOTES.md")) else "",
        "confirmed": {k: res[k] for k in ("patch_applies", "suite_passes_with_patch", "demo_fails_with_patch", "demo_passes_without_patch")},
        "ran": ["go test -vet=off -count=1 ./... (with patch): pass", "go test -run 'Seed|ZZ' ./ecs with patch: FAIL, without: pass", res["check_cmd"]],
        "our_check": {"exit": res["check_exit"], "detected": res["detected"], "wall_s": res["check_wall_s"], "output": res["check_output"]}}
json.dump(meta, open(os.path.join(dst, "meta.json"), "w"), indent=1)
