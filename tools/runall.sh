#!/bin/bash
# run every claimed check (quick tier by default) and print one line per property
tier=${1:-quick}
cd /verif
for p in $(python3 -c "import json;print(' '.join(c['property_id'] for c in json.load(open('MANIFEST.json'))['checks']))"); do
  s=$(date +%s)
  out=$(timeout 3000 python3 tools/vcheck.py $p --tier $tier 2>&1)
  rc=$?
  e=$(date +%s)
  echo "$p exit=$rc $((e-s))s :: $(echo "$out" | grep -E "^$p " | tail -1 | cut -c1-160)"
  echo "$out" | grep -E "^(VIOLATION|INCONCLUSIVE|KNOWN)" | cut -c1-200 | head -5
done
