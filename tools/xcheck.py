#!/usr/bin/env python3
"""Cross-solver check of the encoding: re-discharge dumped obligations with z3 4.8.12, z3-new 5.1.0 and cvc5.

  python3 tools/xcheck.py C02 [C07 ...]     (dumps up to 3 obligations per executed path, then re-runs them)

Any disagreement between a solver's answer and the verdict the engine acted on is an encoding/solver
problem and is printed; exit 0 only if all definite answers agree."""
import glob, os, subprocess, sys, tempfile, shutil, json, time
VERIF = os.path.dirname(os.path.dirname(os.path.abspath(__file__)))
sys.path.insert(0, os.path.join(VERIF, "tools"))
import vcheck, propconf

def run(cmd, f, timeout=60):
    try:
        r = subprocess.run(cmd + [f], capture_output=True, text=True, timeout=timeout)
        out = (r.stdout + r.stderr).strip().splitlines()
        if any(l.startswith("(error") for l in out):
            return "error"
        for l in out:
            if l in ("sat", "unsat", "unknown"):
                return l
        return "error"
    except subprocess.TimeoutExpired:
        return "timeout"

def main():
    vcheck.ensure_engine()
    total = agree = 0
    bad = []
    report = {}
    for pid in sys.argv[1:]:
        conf = propconf.PROPS[pid]
        tags = conf.get("tagsets", ["verif"])[0]
        hs = vcheck.select(vcheck.list_harnesses(tags), pid, "quick")
        d = tempfile.mkdtemp(prefix="xcheck-")
        try:
            r, summ = vcheck.run_engine(hs, tags, "quick", dict(conf.get("engine", {})), extra=["-dump-dir", d])
            files = sorted(glob.glob(os.path.join(d, "*.smt2")))
            step = max(1, len(files) // 60)
            files = files[::step][:60]
            for f in files:
                exp = "unsat" if f.endswith("-unsat.smt2") else "sat"
                res = {"z3": run(["z3", "-smt2"], f), "z3-new": run(["z3-new", "-smt2"], f),
                       "cvc5": run(["cvc5", "--lang=smt2"], f)}
                total += 1
                definite = [v for v in res.values() if v in ("sat", "unsat")]
                if all(v == exp for v in definite) and definite:
                    agree += 1
                else:
                    bad.append((os.path.basename(f), exp, res))
                report.setdefault(pid, []).append({"file": os.path.basename(f), "expected": exp, **res})
        finally:
            shutil.rmtree(d, ignore_errors=True)
    os.makedirs(os.path.join(VERIF, "evidence"), exist_ok=True)
    json.dump({"at": time.strftime("%Y-%m-%d %H:%M:%S"), "obligations": total, "agree": agree, "report": report},
              open(os.path.join(VERIF, "evidence", "xcheck.json"), "w"), indent=1)
    print("cross-solver: %d obligations re-discharged, %d agree on every definite answer" % (total, agree))
    for b in bad:
        print("DISAGREE", b)
    sys.exit(0 if not bad else 1)

if __name__ == "__main__":
    main()
