#!/usr/bin/env python3
"""Regenerate MANIFEST.json from tools/propconf.py (claimed checks) and the fixed property list."""
import json, os, sys
VERIF = os.path.dirname(os.path.dirname(os.path.abspath(__file__)))
sys.path.insert(0, os.path.join(VERIF, "tools"))
import propconf
ids = [json.loads(l)["id"] for l in open(os.path.join(VERIF, "properties.jsonl"))]
checks, na = [], []
for pid in ids:
    c = propconf.PROPS.get(pid)
    if not c or c.get("unclaimed"):
        na.append({"property_id": pid, "reason": (c or {}).get("unclaimed", "check not built yet in this session (solver-based harness pending); no other technique substituted")})
        continue
    checks.append({
        "property_id": pid,
        "quick_cmd": "python3 tools/vcheck.py %s --tier quick" % pid,
        "thorough_cmd": "python3 tools/vcheck.py %s --tier thorough" % pid,
        "evidence_file": "/verif/evidence/%s.json" % pid,
        "replay_cmd_template": "python3 tools/vcheck.py --replay {path}",
        "engine": "gosym",
        "level_claimed": {"category": c.get("level", "model_checking"), "text": c["level_text"], "design_ref": c.get("design_ref", "DESIGN.md section 4 / " + pid)},
        "level_note": c["level_note"],
        "technique": c.get("technique", "bounded symbolic execution of the real Go SSA into SMT-LIB2 (bit-vectors), z3 decides each obligation; counterexamples replayed natively"),
    })
m = {
    "version": 1,
    "setup_cmd": "cd /verif/engine && go build -mod=vendor -o /verif/bin/gosym .",
    "hooks": {"guard": "verif", "enable": "harness files (package ecs, //go:build verif) are injected as overlays with -tags verif; nothing is added to /repo",
              "baseline_off_cmd": "cd /repo && GOFLAGS=-mod=mod GOPROXY=off go test -vet=off -count=1 ./...", "source_commits": [], "add_only": True},
    "engines": [{"name": "gosym", "path": "/verif/engine", "serves_properties": [c["property_id"] for c in checks],
                 "kind_free_text": "own Go SSA -> SMT-LIB2 symbolic executor (go/ssa front end, concrete-pointer heap, path exploration by re-execution, if-conversion of specification code, z3 -in back end, native replay)"}],
    "checks": checks,
    "not_applicable": na,
    "notes": "Exit codes of every check: 0 held, 1 VIOLATION (reproduced natively), 2 no verdict (engine error / solver unknown / bound exceeded / replay mismatch). See DESIGN.md.",
}
json.dump(m, open(os.path.join(VERIF, "MANIFEST.json"), "w"), indent=1)
print("claimed", len(checks), "not_applicable", len(na))
