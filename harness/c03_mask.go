//go:build verif

package ecs

// ---- C03 (oracle layer) / C20: bit-mask algebra over all masks, all bit positions.

func vArbMask(l string) bitMask {
	var m bitMask
	vFillMask(&m, l)
	return m
}

// model predicates restated independently on the words
func vWords(m *bitMask) [4]uint64 { return vMaskWords(m) }

func vSpecGet(m *bitMask, bit uint8) bool {
	w := vWords(m)
	r := false
	for i := 0; i < 4; i++ {
		if int(bit>>6) == i {
			r = (w[i]>>(bit&63))&1 == 1
		}
	}
	return r
}

func VerifC03_MaskGetSetClear() {
	m := vArbMask("m")
	bit := vU8("bit")
	other := vU8("other")
	vassume(int(bit) < maskTotalBits && int(other) < maskTotalBits && other != bit)
	o0 := m.Get(other)
	vcheck("get-spec", m.Get(bit) == vpure(func() bool { return vSpecGet(&m, bit) }))
	m.Set(bit)
	vcheck("set", m.Get(bit))
	vcheck("set-frame", m.Get(other) == o0)
	vcheck("set-nonzero", !m.IsZero())
	m.Clear(bit)
	vcheck("clear", !m.Get(bit))
	vcheck("clear-frame", m.Get(other) == o0)
	vreach("end")
}

func VerifC03_MaskAlgebra() {
	a, b := vArbMask("a"), vArbMask("b")
	bit := vU8("bit")
	vassume(int(bit) < maskTotalBits)
	wa, wb := vWords(&a), vWords(&b)
	contains, any, eq, zero := true, false, true, true
	for i := 0; i < 4; i++ {
		contains = contains && wa[i]&wb[i] == wb[i]
		any = any || wa[i]&wb[i] != 0
		eq = eq && wa[i] == wb[i]
		zero = zero && wa[i] == 0
	}
	vcheck("contains", a.Contains(&b) == contains)
	vcheck("contains-any", a.ContainsAny(&b) == any)
	vcheck("equals", a.Equals(&b) == eq)
	vcheck("iszero", a.IsZero() == zero)
	n := a.Not()
	vcheck("not", n.Get(bit) == !a.Get(bit))
	c := a
	c.OrI(&b)
	vcheck("or", c.Get(bit) == (a.Get(bit) || b.Get(bit)))
	c.Reset()
	vcheck("reset", c.IsZero())
	// pointwise characterisations used by every oracle
	if a.Contains(&b) && b.Get(bit) {
		vcheck("contains-pointwise", a.Get(bit))
	}
	if a.Get(bit) && b.Get(bit) {
		vcheck("any-pointwise", a.ContainsAny(&b))
	}
	vreach("end")
}

func VerifC03_NewMaskAndCount() {
	i0, i1, i2 := vU8("i0"), vU8("i1"), vU8("i2")
	vassume(int(i0) < maskTotalBits && int(i1) < maskTotalBits && int(i2) < maskTotalBits)
	var m bitMask
	vmerge(func() { m = newMask(ID{i0}, ID{i1}, ID{i2}) })
	bit := vU8("bit")
	vassume(int(bit) < maskTotalBits)
	var got bool
	vmerge(func() { got = m.Get(bit) })
	vcheck("newmask", got == (bit == i0 || bit == i1 || bit == i2))
	vreach("end")
}

func VerifC03_TotalBitsSet() {
	i0, i1 := vU8("i0"), vU8("i1")
	vassume(int(i0) < maskTotalBits && int(i1) < maskTotalBits)
	m := newMask(ID{i0}, ID{i1}) // forks over the word of each position
	distinct := 1
	if i1 != i0 {
		distinct++
	}
	vcheck("popcount", m.TotalBitsSet() == distinct)
	vreach("end")
}

// filter.matches == the documented rule, for all masks.
func VerifC03_FilterMatches() {
	f := filter{mask: vArbMask("with"), without: vArbMask("without"), hasWithout: vBool("hasWithout"), cache: maxCacheID}
	m := vArbMask("m")
	ww, wo, wm := vWords(&f.mask), vWords(&f.without), vWords(&m)
	spec := true
	for i := 0; i < 4; i++ {
		spec = spec && wm[i]&ww[i] == ww[i] && (!f.hasWithout || wm[i]&wo[i] == 0)
	}
	vcheck("matches", f.matches(&m) == spec)
	// Exclusive: exactly the with-set
	g := filter{mask: f.mask, cache: maxCacheID}.Exclusive()
	vcheck("exclusive", g.matches(&m) == m.Equals(&f.mask))
	vreach("end")
}
