//go:build verif

package ecs

import "unsafe"

// ---- C14: the single-component mapper Map[T] (map.go) against the ID-based API, plain
// and relation component, on a world with several rows per table.
func VerifC14_MapSingle() {
	w := NewWorld(1)
	u := w.Unsafe()
	idK, idX := ComponentID[vK3](w), ComponentID[vKX](w)
	m := NewMap[vK3](w)
	var vals [4]uint32
	for i := range vals {
		vals[i] = vU32("val")
	}
	e0 := m.NewEntity(&vK3{V: [3]uint32{vals[0], 1, 2}})
	e1 := m.NewEntityFn(func(p *vK3) { p.V[0] = vals[1] })
	e2 := u.NewEntity(idK, idX)
	(*vK3)(u.Get(e2, idK)).V[0] = vals[2]
	for i, e := range [3]Entity{e0, e1, e2} {
		vcheck("get/pointer", unsafe.Pointer(m.Get(e)) == u.Get(e, idK) && m.Get(e).V[0] == vals[i])
		vcheck("has", m.Has(e) && m.HasUnchecked(e) && unsafe.Pointer(m.GetUnchecked(e)) == u.Get(e, idK))
	}
	s := vK3{V: [3]uint32{vals[3], 9, 9}}
	m.Set(e1, &s)
	vcheck("set/visible-through-ids", (*vK3)(u.Get(e1, idK)).V[0] == vals[3] && (*vK3)(u.Get(e0, idK)).V[0] == vals[0])
	m.Remove(e0)
	vcheck("remove", !u.Has(e0, idK) && vNIDs(u, e0) == 0 && !m.Has(e0) && m.Get(e0) == nil)
	m.Add(e0, &vK3{V: [3]uint32{vals[2], 0, 0}})
	vcheck("add", (*vK3)(u.Get(e0, idK)).V[0] == vals[2])
	e3 := u.NewEntity(idX)
	seen := 0
	m.AddBatchFn(NewFilter1[vKX](w).Without(C[vK3]()).Batch(), func(e Entity, p *vK3) {
		if e == e3 && unsafe.Pointer(p) == u.Get(e, idK) {
			seen++
		}
	})
	vcheck("addbatch/callback", seen == 1 && u.Has(e3, idK))
	n := 0
	m.RemoveBatch(NewFilter1[vK3](w).Batch(), func(Entity) { n++ })
	vcheck("removebatch", n == 4 && !u.Has(e1, idK) && u.Has(e2, idX))
	cnt := 0
	m.NewBatchFn(2, func(e Entity, p *vK3) {
		if unsafe.Pointer(p) == u.Get(e, idK) {
			cnt++
		}
	})
	vcheck("newbatch", cnt == 2)
	vreach("end")
}

func VerifC14_MapSingleRelation() {
	w := NewWorld(1)
	u := w.Unsafe()
	idR := ComponentID[vKR](w)
	p0, p1 := w.NewEntity(), w.NewEntity()
	m := NewMap[vKR](w)
	x := vU32("x")
	c0 := m.NewEntity(&vKR{V: x}, p0)
	c1 := u.NewEntityRel([]ID{idR}, RelID(idR, p0))
	vcheck("relation", m.GetRelation(c0) == p0 && u.GetRelation(c0, idR) == p0 && m.GetRelationUnchecked(c1) == p0)
	vcheck("same-table", w.storage.entities[c0.id].table == w.storage.entities[c1.id].table && m.Get(c0).V == x)
	m.SetRelation(c0, p1)
	vcheck("setrelation", u.GetRelation(c0, idR) == p1 && u.GetRelation(c1, idR) == p0 && m.Get(c0).V == x)
	n := 0
	m.SetRelationBatch(NewFilter1[vKR](w).Batch(), p1, func(Entity) { n++ })
	vcheck("setrelationbatch", u.GetRelation(c1, idR) == p1 && n == 1)
	c2 := w.NewEntity()
	m.Add(c2, &vKR{V: 5}, p0)
	vcheck("add-with-target", u.GetRelation(c2, idR) == p0)
	vcheck("add-relation-without-target-rejected", vpanics(func() { m.Add(w.NewEntity(), &vKR{}) }))
	vreach("end")
}

// ---- C18: component / resource registries seen through the public functions
func VerifC18_PublicRegistryAPI() {
	w := NewWorld(1)
	a, b := ComponentID[vPos](w), ComponentID[vChild](w)
	vcheck("ids-sequential-and-stable", a.id == 0 && b.id == 1 && ComponentID[vPos](w) == a && TypeID(w, C[vChild]().Type()) == b)
	ids := ComponentIDs(w)
	vcheck("componentids", len(ids) == 2 && ids[0] == a && ids[1] == b)
	info, ok := ComponentInfo(w, b)
	_, ok2 := ComponentInfo(w, ID{7})
	vcheck("componentinfo", ok && info.ID == b && info.IsRelation && info.Type == C[vChild]().Type() && !ok2)
	// resources: at most one per type, ids per type stable
	r1 := ResourceID[vRes](w)
	r2 := ResourceID[vPos](w)
	vcheck("resource-ids", r1.id == 0 && r2.id == 1 && ResourceID[vRes](w) == r1)
	res := &vRes{7}
	vcheck("add-resource", AddResource(w, res) == r1 && GetResource[vRes](w) == res && GetResource[vPos](w) == nil)
	vcheck("second-add-panics", vpanics(func() { AddResource(w, &vRes{8}) }))
	vcheck("still-first", GetResource[vRes](w) == res)
	g := NewResource[vRes](w)
	vcheck("generic-wrapper", g.Has() && g.Get() == res)
	g.Remove()
	vcheck("removed", !g.Has() && g.Get() == nil && GetResource[vRes](w) == nil)
	vcheck("remove-missing-panics", vpanics(func() { g.Remove() }))
	rids := ResourceIDs(w)
	tp, okT := ResourceType(w, r2)
	vcheck("resource-registry", len(rids) == 2 && okT && tp == C[vPos]().Type())
	vreach("end")
}

// ---- C08: custom events emitted through the public API (World.Event(...).For(...).Emit)
func VerifC08_EmitCustomEvent() {
	W := vShapeFor(0)
	fired := 0
	var last Entity
	Observe(5).For(C[vPos]()).With(C[vVel]()).Do(func(e Entity) { fired++; last = e }).Register(W.w)
	i := vPick("entity", W.n)
	m := &W.e[i]
	useComp := vPick("with-comp", 2) == 1
	ev := W.w.Event(5)
	if useComp {
		ev = ev.For(C[vPos]())
	}
	p := vpanics(func() { ev.Emit(m.h) })
	mustPanic := !m.alive || (useComp && !m.has[cA])
	vcheck("emit/panics-iff-dead-or-missing-component", p == mustPanic)
	exp := 0
	if !mustPanic && useComp && m.has[cB] {
		exp = 1
	}
	vcheck("emit/fires-iff-documented", fired == exp && (exp == 0 || last == m.h))
	vcheck("emit/zero-entity-with-components-panics", vpanics(func() { W.w.Event(5).For(C[vPos]()).Emit(Entity{}) }))
	vcheck("emit/builtin-types-rejected", vpanics(func() { W.w.Event(OnCreateEntity) }))
	W.checkAll("emit")
	vreach("end")
}

// two typed queries of one filter with different per-query targets, open at the same time,
// after the filter was used for a Batch: each equals the ID-based query with that target
func VerifC14_TypedQueriesAfterBatch() {
	W := vShapeRel(1, 60, true, 0)
	p0, p1 := W.e[0].h, W.e[1].h
	f := NewFilter2[vChild, vPos](W.w)
	_ = f.Batch(RelIdx(0, p0))
	q1 := f.Query(RelIdx(0, p0))
	q2 := f.Query(RelIdx(0, p1))
	uf := NewUnsafeFilter(W.w, W.id[cR1], W.id[cA])
	u1 := uf.Query(RelID(W.id[cR1], p0))
	u2 := uf.Query(RelID(W.id[cR1], p1))
	vcheck("count-q1-equals-id-based", q1.Count() == u1.Count())
	vcheck("count-q2-equals-id-based", q2.Count() == u2.Count())
	n1, n2, bad := 0, 0, 0
	for q1.Next() {
		n1++
		if q1.GetRelation(0) != p0 {
			bad++
		}
		for q2.Next() { // nested: all pairs
			n2++
			if q2.GetRelation(0) != p1 {
				bad++
			}
		}
		q2 = f.Query(RelIdx(0, p1))
	}
	q2.Close()
	c1, c2 := u1.Count(), u2.Count()
	u1.Close()
	u2.Close()
	vcheck("nested-iteration-visits-all-pairs", n1 == c1 && n2 == c1*c2 && bad == 0)
	vcheck("unlocked", !W.w.IsLocked())
	vreach("end")
}
