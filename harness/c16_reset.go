//go:build verif

package ecs

// ---- C16: World.Reset from shape worlds that also hold registered filters, observers
// and resources: the post-state is FRESH (DESIGN.md A.5), and the world then behaves
// like a new one (same model-based checks as C01 continue to hold for later operations).

type vRes struct{ X int }

func vResetScenario(kind int) {
	W := vShapeFor(kind)
	// things that must all disappear
	f1 := NewFilter1[vPos](W.w).Register()
	f2 := NewFilter2[vChild, vPos](W.w)
	if kind == 1 {
		f2.Relations(RelIdx(0, W.e[0].h)).Register()
	}
	// registration order with a hole: a third filter registered, then an earlier one unregistered
	f3 := NewFilter1[vVel](W.w).Register()
	switch vPick("unregister-before-reset", 3) {
	case 1:
		f1.Unregister()
		f1 = NewFilter1[vPos](W.w).Register()
	case 2:
		f3.Unregister()
	}
	fired := 0
	obsEvt := []EventType{OnCreateEntity, OnRemoveRelations, 7}[vPick("obs", 3)]
	ob := Observe(obsEvt).Do(func(Entity) { fired++ }).Register(W.w)
	res := NewResource[vRes](W.w)
	res.Add(&vRes{1})
	if vPick("remove-all-entities-before-reset", 2) == 1 {
		W.w.RemoveEntities(NewFilter0(W.w).Batch(), nil)
		for i := 0; i < W.n; i++ {
			W.e[i].alive = false
		}
		fired = 0 // removal events of this batch are legitimate
	}
	W.w.Stats()
	// lock bits were used and released in non-LIFO order before the Reset
	qa := NewFilter1[vPos](W.w).Query()
	qb := NewUnsafeFilter(W.w, W.id[cA]).Query()
	qc := f1.Query()
	qa.Close()
	qc.Close()
	qb.Close()
	vcheck("reset/no-panic", !vpanics(func() { W.w.Reset() }))
	s := &W.w.storage
	// no entities
	okDead := true
	for i := 0; i < W.n; i++ {
		okDead = okDead && !W.w.Alive(W.e[i].h)
		W.e[i].alive = false
	}
	vcheck("reset/no-handle-alive", okDead)
	vcheck("reset/pool-empty", s.entityPool.Len() == 0 && s.entityPool.available == 0 && len(s.entities) == reservedEntities && len(s.isTarget) == reservedEntities)
	vcheck("reset/stats-empty", W.w.Stats().Entities.Used == 0 && W.w.Stats().Entities.Recycled == 0 && W.w.Stats().CachedFilters == 0 && W.w.Stats().Observers == 0 && !W.w.Stats().Locked)
	// tables empty, relation tables free exactly once, indices empty
	okTables := true
	for ti := range s.tables {
		t := &s.tables[ti]
		okTables = okTables && t.len == 0
		a := &s.archetypes[t.archetype]
		if a.HasRelations() {
			n := 0
			for _, ft := range a.freeTables {
				if ft == t.id {
					n++
				}
			}
			okTables = okTables && t.isFree && n == 1 && len(a.tables.tables) == 0 && len(a.targetTables) == 0
			for ci := range a.relationTables {
				okTables = okTables && len(a.relationTables[ci]) == 0
			}
		}
	}
	vcheck("reset/tables-empty-relation-tables-free", vpure(func() bool { return okTables }))
	vcheck("reset/inv", vpure(func() bool { return invWorld(W.w) && invRelations(W.w) && invZero(W) }))
	// filters, observers, resources gone; can be registered again
	vcheck("reset/filters-unregistered", len(s.cache.filters) == 0 && len(s.cache.indices) == 0 && f1.filter.cache == maxCacheID && f2.filter.cache == maxCacheID && f3.filter.cache == maxCacheID)
	vcheck("reset/observer-unregistered", ob.id == maxObserverID && !s.observers.hasObservers[obsEvt] && s.observers.totalCount == 0)
	vcheck("reset/resources-removed", !res.Has())
	vcheck("reset/unlocked", !W.w.IsLocked())
	fresh := NewWorld(1, 1)
	lk, lk0 := &s.locks, &fresh.storage.locks
	vcheck("reset/lock-pool-as-new", lk.locks.bits == 0 && lk.bitPool.length == lk0.bitPool.length && lk.bitPool.available == lk0.bitPool.available && lk.bitPool.next == lk0.bitPool.next)
	// nested queries after the Reset: closing the inner one leaves the outer one locking
	n1 := NewFilter0(W.w).Query()
	n2 := NewUnsafeFilter(W.w).Query()
	n3 := NewFilter0(W.w).Query()
	n2.Close()
	vcheck("reset/nested-queries-keep-locking", W.w.IsLocked())
	n3.Close()
	vcheck("reset/nested-queries-keep-locking", W.w.IsLocked())
	n1.Close()
	vcheck("reset/nested-queries-unlock-at-the-end", !W.w.IsLocked())
	e0 := W.w.NewEntity()
	W.w.RemoveEntity(e0)
	W.w.Event(7).Emit(Entity{})
	vcheck("reset/observer-never-fires-again", fired == 0)
	vcheck("reset/re-register-ok", !vpanics(func() { f3.Register(); f1.Register(); ob.Register(W.w); res.Add(&vRes{2}) }))
	qn := 0
	q3 := f3.Query()
	for q3.Next() {
		qn++
	}
	vcheck("reset/re-registered-filter-queries-its-own-entry", qn == 0 && !W.w.IsLocked())
	ob.Unregister(W.w)
	f1.Unregister()
	f3.Unregister()
	// the world is reusable: later operations behave as on a new world (model-based, as C01)
	W.n = 0
	W.standing[0] = nil
	if vPick("shrink-after-reset", 2) == 1 {
		vclockbound(3599_000_000_000)
		var more bool
		vcheck("after/shrink-no-panic", !vpanics(func() { more = W.w.Shrink() }))
		vcheck("after/shrink-nothing-to-do", !more)
	}
	p0 := W.create([]int{cA}, Entity{}, Entity{})
	p1 := W.create([]int{cA}, Entity{}, Entity{})
	p2 := W.create([]int{cA}, Entity{}, Entity{})
	W.create([]int{cR1, cA}, W.e[p0].h, Entity{})
	W.create([]int{cR1, cA}, W.e[p1].h, Entity{})
	W.create([]int{cR1, cA}, W.e[p2].h, Entity{})
	W.create([]int{cR1, cR2}, W.e[p2].h, W.e[p0].h)
	W.create([]int{cA, cB}, Entity{}, Entity{})
	for i := 0; i < W.n; i++ {
		W.havocValues(i)
	}
	W.checkAll("after")
	vMode = 1
	W.applyOp([]int{5, 8}[vPick("op", 2)], "after-op")
	vreach("end")
}

func VerifC16_WorldResetPlain() { vResetScenario(0) }
func VerifC16_WorldResetRel()   { vResetScenario(1) }

// ---- C15: Shrink directly after Reset (every relation table is free) must find nothing to
// do and must not disturb the later recycling of those tables for new targets.
func VerifC15_ShrinkAfterReset() {
	W := vShapeFor(1)
	W.w.Reset()
	for i := 0; i < W.n; i++ {
		W.e[i].alive = false
	}
	W.n = 0
	vclockbound(3599_000_000_000)
	var more bool
	vcheck("shrink-no-panic", !vpanics(func() { more = W.w.Shrink() }))
	vcheck("nothing-to-shrink-after-reset", !more)
	W.checkAll("after-shrink")
	var ps [4]int
	for k := range ps {
		ps[k] = W.create([]int{cA}, Entity{}, Entity{})
	}
	for k := range ps {
		W.create([]int{cR1, cA}, W.e[ps[k]].h, Entity{})
		W.create([]int{cR1, cR2}, W.e[ps[k]].h, W.e[ps[(k+1)%4]].h)
	}
	for i := 0; i < W.n; i++ {
		W.havocValues(i)
	}
	W.checkAll("repopulated")
	vMode = 1
	W.applyOp(5, "after-op")
	vreach("end")
}
