//go:build verif

package ecs

// ---- C17-H1 / C02: entity dump and load. Source world: entities created and removed in
// a symbolic order (every free-list shape of the bound); the dump is loaded into a fresh
// world, or into the same world after Reset; the source may change after the dump.

const vDN = 6

type vDumpSrc struct {
	w     *World
	h     [vDN + 4]Entity
	alive [vDN + 4]bool
	n     int
}

func vDumpSource() *vDumpSrc {
	s := &vDumpSrc{w: NewWorld(1)}
	n0 := 1 + vPick("initial", 3) // 1..3 entities, so that "everything removed again" is within reach
	for i := 0; i < n0; i++ {
		s.h[s.n] = s.w.NewEntity()
		s.alive[s.n] = true
		s.n++
	}
	// three symbolic steps: remove any alive entity, or create one (recycling)
	for step := 0; step < 3; step++ {
		k := vPick("step", s.n+1)
		if k == s.n {
			if s.n < vDN+4 {
				s.h[s.n] = s.w.NewEntity()
				s.alive[s.n] = true
				s.n++
			}
		} else if s.alive[k] {
			s.w.RemoveEntity(s.h[k])
			s.alive[k] = false
		}
	}
	return s
}

func vDumpLoad(mutateAfterDump bool, intoReset bool) {
	s := vDumpSource()
	d := s.w.Unsafe().DumpEntities()
	aliveAtDump := s.alive
	nAtDump := s.n
	if mutateAfterDump {
		// the dump must be a snapshot: later changes of the source must not leak into it
		for i := 0; i < s.n; i++ {
			if s.alive[i] {
				s.w.RemoveEntity(s.h[i])
				s.alive[i] = false
				break
			}
		}
		s.w.NewEntity()
		s.w.NewEntity()
	}
	var w2 *World
	if intoReset {
		w2 = s.w
		w2.Reset()
	} else {
		w2 = NewWorld(2)
	}
	vcheck("load-no-panic", !vpanics(func() { w2.Unsafe().LoadEntities(&d) }))
	okAlive := true
	nAlive := 0
	for i := 0; i < nAtDump; i++ {
		okAlive = okAlive && w2.Alive(s.h[i]) == aliveAtDump[i]
		if aliveAtDump[i] {
			nAlive++
		}
	}
	vcheck("alive-status-reproduced", okAlive)
	vcheck("entity-count", w2.Stats().Entities.Used == nAlive && w2.storage.entityPool.Len() == nAlive)
	vcheck("inv-after-load", vpure(func() bool { return invWorld(w2) }))
	if !mutateAfterDump && !intoReset {
		// consecutive creations return the same handles in both worlds
		same := true
		for k := 0; k < 3; k++ {
			a, b := s.w.NewEntity(), w2.NewEntity()
			same = same && a == b
		}
		vcheck("same-future-handles", same)
		vcheck("inv-after-creations", vpure(func() bool { return invWorld(w2) }))
	}
	// handles that were dead at dump time are dead handles in the loaded world: operations on them are rejected
	for i := 0; i < nAtDump; i++ {
		if !aliveAtDump[i] && !w2.Alive(s.h[i]) {
			before := w2.storage.entityPool.Len()
			vcheck("remove-of-dead-handle-rejected-after-load", vpanics(func() { w2.RemoveEntity(s.h[i]) }))
			vcheck("rejected-remove-has-no-effect", w2.storage.entityPool.Len() == before && vpure(func() bool { return invWorld(w2) }))
			break
		}
	}
	// loading into a world that is not fresh is rejected
	vcheck("second-load-rejected", nAtDump == 0 || vpanics(func() { w2.Unsafe().LoadEntities(&d) }))
	vreach("end")
}

func VerifC17_DumpLoadFresh()     { vDumpLoad(false, false) }
func VerifC17_DumpLoadSnapshot()  { vDumpLoad(true, false) }
func VerifC17_DumpLoadIntoReset() { vDumpLoad(false, true) }
func VerifC17_DumpLoadEmpty() {
	w := NewWorld(1)
	d := w.Unsafe().DumpEntities()
	w2 := NewWorld(1)
	vcheck("load-empty-no-panic", !vpanics(func() { w2.Unsafe().LoadEntities(&d) }))
	a, b := w.NewEntity(), w2.NewEntity()
	vcheck("same-first-handle", a == b && w2.Alive(b))
	vreach("end")
}

// C02 observes the same harness: liveness of every handle is exact after dump/load
func VerifC02_DumpLoadSnapshot() { vDumpLoad(true, false) }
func VerifC02_DumpLoadFresh()    { vDumpLoad(false, false) }
