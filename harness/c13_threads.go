//go:build verif

package ecs

// ---- C13: two threads create, iterate, count and close queries at the same time.
// No pair of conflicting accesses to shared state may be unprotected by a common mutex
// (data race), every query yields exactly its matching entities, and the world is
// unlocked afterwards.

func vCountTyped(f *Filter2[vChild, vPos], rel []Relation, out *[3]int) {
	q := f.Query(rel...)
	n := 0
	for q.Next() {
		_, p := q.Get()
		_ = p.X
		_ = q.Entity()
		n++
	}
	out[0] = n
	q2 := f.Query(rel...)
	out[1] = q2.Count()
	if out[1] > 0 {
		_ = q2.EntityAt(0)
	}
	q2.Close()
	out[2] = 1
}

func vThreadsScenario(warm, cached, batchBefore, perQuery bool) {
	W := vShapeRel(1, 60, true, 0)
	vTighten(W.w)
	p0, p1 := W.e[0].h, W.e[1].h
	f := NewFilter2[vChild, vPos](W.w)
	var rel1, rel2 []Relation
	if perQuery {
		rel1, rel2 = []Relation{RelIdx(0, p0)}, []Relation{RelIdx(0, p1)}
	}
	if batchBefore {
		_ = f.Batch(RelIdx(0, p0)) // leaves a backing array behind in the filter
	}
	if cached {
		f.Register()
	}
	if warm {
		q := f.Query()
		q.Close()
	}
	// expected results from the model
	exp := func(t Entity, withT bool) int {
		n := 0
		for j := 0; j < W.n; j++ {
			m := &W.e[j]
			if m.alive && m.has[cR1] && m.has[cA] && (!withT || m.tgt[0] == t) {
				n++
			}
		}
		return n
	}
	var r1, r2 [3]int
	vthreads("race-free",
		func() { vCountTyped(f, rel1, &r1) },
		func() { vCountTyped(f, rel2, &r2) })
	vcheck("thread1-exact", r1[0] == exp(p0, perQuery) && r1[1] == r1[0] && r1[2] == 1)
	vcheck("thread2-exact", r2[0] == exp(p1, perQuery) && r2[1] == r2[0] && r2[2] == 1)
	vcheck("unlocked-after-join", !W.w.IsLocked())
	vreach("end")
}

func VerifC13_SameFilterWarm()     { vThreadsScenario(true, false, false, false) }
func VerifC13_SameFilterFirstUse() { vThreadsScenario(false, false, false, false) }
func VerifC13_CachedFilter()       { vThreadsScenario(true, true, false, false) }
func VerifC13_PerQueryTargets()    { vThreadsScenario(true, false, false, true) }
func VerifC13_PerQueryTargetsAfterBatch() {
	vThreadsScenario(true, false, true, true)
}
func VerifC13_CachedPerQueryTargets() { vThreadsScenario(true, true, true, true) }

// two different filters and an unsafe query
func VerifC13_TwoFilters() {
	W := vShapeRel(1, 60, true, 0)
	f1 := NewFilter1[vPos](W.w)
	uf := NewUnsafeFilter(W.w, W.id[cR1])
	q := f1.Query()
	q.Close()
	n1, n2 := 0, 0
	vthreads("race-free",
		func() {
			q := f1.Query()
			for q.Next() {
				_ = q.Get().X
				n1++
			}
		},
		func() {
			q := uf.Query(RelID(W.id[cR1], W.e[0].h))
			for q.Next() {
				_ = q.Entity()
				n2++
			}
			q2 := uf.Query()
			_ = q2.Count()
			q2.Close()
		})
	e1, e2 := 0, 0
	for j := 0; j < W.n; j++ {
		if W.e[j].alive && W.e[j].has[cA] {
			e1++
		}
		if W.e[j].alive && W.e[j].has[cR1] && W.e[j].tgt[0] == W.e[0].h {
			e2++
		}
	}
	vcheck("exact", n1 == e1 && n2 == e2)
	vcheck("unlocked-after-join", !W.w.IsLocked())
	vreach("end")
}

// two DIFFERENT registered filters (one with a fixed relation target), one per thread: the
// shared filter cache is only read; each thread gets exactly its own entities
func VerifC13_TwoCachedFilters() {
	W := vShapeRel(1, 60, true, 0)
	f1 := NewFilter1[vPos](W.w).Register()
	f2 := NewFilter2[vChild, vPos](W.w).Relations(RelIdx(0, W.e[0].h)).Register()
	n1, n2, c1, c2 := 0, 0, 0, 0
	vthreads("race-free",
		func() {
			q := f1.Query()
			for q.Next() {
				_ = q.Get().X
				n1++
			}
			qc := f1.Query()
			c1 = qc.Count()
			qc.Close()
		},
		func() {
			q := f2.Query()
			for q.Next() {
				_ = q.GetRelation(0)
				n2++
			}
			qc := f2.Query()
			c2 = qc.Count()
			qc.Close()
		})
	e1, e2 := 0, 0
	for j := 0; j < W.n; j++ {
		if W.e[j].alive && W.e[j].has[cA] {
			e1++
		}
		if W.e[j].alive && W.e[j].has[cA] && W.e[j].has[cR1] && W.e[j].tgt[0] == W.e[0].h {
			e2++
		}
	}
	vcheck("exact", n1 == e1 && n2 == e2 && c1 == e1 && c2 == e2)
	vcheck("unlocked-after-join", !W.w.IsLocked())
	vreach("end")
}

// concurrent queries in a world that was Reset after earlier (non-LIFO) query use: the lock
// pool starts over, every open query holds its own bit
func VerifC13_AfterReset() {
	W := vShapeRel(1, 60, true, 0)
	qa := NewFilter1[vPos](W.w).Query()
	qb := NewUnsafeFilter(W.w, W.id[cA]).Query()
	qa.Close()
	qb.Close()
	W.w.Reset()
	W.n = 0
	p := W.create([]int{cA}, Entity{}, Entity{})
	W.create([]int{cR1, cA}, W.e[p].h, Entity{})
	W.create([]int{cA, cB}, Entity{}, Entity{})
	f := NewFilter1[vPos](W.w)
	warm := f.Query()
	warm.Close()
	n1, n2 := 0, 0
	vthreads("race-free",
		func() {
			q := f.Query()
			for q.Next() {
				n1++
			}
		},
		func() {
			q := f.Query()
			for q.Next() {
				n2++
			}
			q2 := f.Query()
			_ = q2.Count()
			q2.Close()
		})
	vcheck("exact", n1 == 3 && n2 == 3)
	vcheck("unlocked-after-join", !W.w.IsLocked())
	lk := &W.w.storage.locks
	vcheck("all-lock-bits-returned", lk.locks.bits == 0 && lk.bitPool.available == lk.bitPool.length)
	vreach("end")
}

// ONE unsafe filter value, two threads, different per-query relation targets
func VerifC13_SharedUnsafeFilterTargets() {
	W := vShapeRel(1, 60, true, 0)
	uf := NewUnsafeFilter(W.w, W.id[cR1])
	p0, p1 := W.e[0].h, W.e[1].h
	n0, n1, bad := 0, 0, 0
	vthreads("race-free",
		func() {
			q := uf.Query(RelID(W.id[cR1], p0))
			for q.Next() {
				n0++
				if q.GetRelation(W.id[cR1]) != p0 {
					bad++
				}
			}
		},
		func() {
			q := uf.Query(RelID(W.id[cR1], p1))
			for q.Next() {
				n1++
			}
		})
	e0, e1 := 0, 0
	for j := 0; j < W.n; j++ {
		if W.e[j].alive && W.e[j].has[cR1] && W.e[j].tgt[0] == p0 {
			e0++
		}
		if W.e[j].alive && W.e[j].has[cR1] && W.e[j].tgt[0] == p1 {
			e1++
		}
	}
	vcheck("exact", n0 == e0 && n1 == e1 && bad == 0)
	vcheck("unlocked-after-join", !W.w.IsLocked())
	vreach("end")
}
