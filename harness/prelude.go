//go:build verif

package ecs

import "os"

// Harness primitives. The bodies below are the NATIVE semantics used when a
// counterexample is replayed against the real build; the symbolic engine
// (/verif/engine) intercepts calls to these functions by name.

type vAssumeFailed struct{}

var (
	vReplay    []uint64 // nondet values for native replay, in creation order
	vReplayPos int
	vExhausted bool
	vFailed    []string // labels of failed vcheck calls
	vReached   []string
)

func vnext() uint64 {
	if vReplayPos >= len(vReplay) {
		vExhausted = true
		return 0
	}
	v := vReplay[vReplayPos]
	vReplayPos++
	return v
}

func vU8(l string) uint8   { return uint8(vnext()) }
func vU16(l string) uint16 { return uint16(vnext()) }
func vU32(l string) uint32 { return uint32(vnext()) }
func vU64(l string) uint64 { return vnext() }
func vBool(l string) bool  { return vnext() != 0 }

// vconcrete asks the engine to case-split x into concrete values.
func vconcrete(x uint32) uint32 { return x }

func vassume(c bool) {
	if !c {
		panic(vAssumeFailed{})
	}
}
func vcheck(l string, c bool) {
	if !c {
		vFailed = append(vFailed, l)
	}
}
func vreach(l string) { vReached = append(vReached, l) }

// vpanics runs f and reports whether it panicked (effects before the panic stay).
func vpanics(f func()) (p bool) {
	defer func() {
		if x := recover(); x != nil {
			if _, ok := x.(vAssumeFailed); ok {
				panic(x)
			}
			p = true
		}
	}()
	f()
	return false
}

// vpure marks specification code: the engine runs it merged (never forking).
func vpure(f func() bool) bool { return f() }

// vmaporder selects the iteration order (permutation number) of later map ranges in the engine.
func vmaporder(k uint32) {}

func vnote(l string) {}

// vmerge runs library code merged (if-converted) in the engine: no path forking inside.
func vmerge(f func()) { f() }

func vconcreteInt(x int) int { return x }

// vcheckEqInt checks x == k; the engine then treats x as the concrete value k.
func vcheckEqInt(l string, x, k int) { vcheck(l, x == k) }

// vclockbound: assumption on the environment clock — all later readings of the
// (symbolic, non-decreasing) clock stay within d nanoseconds of the next reading.
func vclockbound(d uint64) {}

// vreps: how often a run-to-run comparison is repeated natively (Go randomises map
// iteration per range statement); the engine explores iteration orders itself and uses 1.
func vreps() int { return 48 }

// vthorough: the thorough tier is running (engine flag -tier; natively VERIF_TIER)
func vthorough() bool { return os.Getenv("VERIF_TIER") == "thorough" }

// vthreads runs the closures as concurrent threads. Engine: thread-modular lockset
// analysis (every pair of conflicting accesses to shared memory with disjoint locksets
// is a violation of the check l). Native: real goroutines (replayed under -race).
func vthreads(l string, f1, f2 func()) {
	done := make(chan bool, 2)
	go func() { f1(); done <- true }()
	go func() { f2(); done <- true }()
	<-done
	<-done
}

// vResetGlobals restores the harness-level globals to their initial values. The engine runs
// every path from freshly initialised globals; the native replay runs many cases in one
// process and calls this before each of them (a case that panics may leave them set).
func vResetGlobals() {
	vMode, vLocked, vPickMax = 0, false, 0
	vNoMul, vOuterOpen, vConcreteValues = false, false, false
	vObserversOn, vOnlyEvt = false, -1
	vCb = vCbState{}
}
