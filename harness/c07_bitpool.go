//go:build verif

package ecs

// ---- C07-H1: bit pool / lock mask, one inductive step from an arbitrary valid state.
//
// Ghost: rank[i] >= 0 iff bit i is on the free chain, rank = distance from the chain's tail
// (head has rank available-1). Held bits H = [0,length) \ free.

const vBPN = 64

type vBitPoolGhost struct {
	rank [vBPN]int16
}

// invBitPool: I-lock restricted to the pool (free chain is exactly the non-held bits below length).
func invBitPool(p *bitPool, g *vBitPoolGhost, n int) bool {
	ok := int(p.length) <= n && p.available <= p.length && len(p.bits) == mask64TotalBits
	cnt := 0
	for i := 0; i < n; i++ {
		r := g.rank[i]
		isFree := r >= 0
		if isFree {
			cnt++
		}
		ok = ok && r >= -1 && r < int16(p.available)
		ok = ok && (!isFree || uint8(i) < p.length)
		// successor on the chain has rank-1
		if isFree && r > 0 {
			nx := p.bits[i]
			ok = ok && int(nx) < n
			for j := 0; j < n; j++ {
				if nx == uint8(j) {
					ok = ok && g.rank[j] == r-1
				}
			}
		}
		// ranks are distinct among free bits
		for j := i + 1; j < n; j++ {
			ok = ok && !(isFree && g.rank[j] >= 0 && g.rank[j] == r)
		}
		// head
		if p.available > 0 && p.next == uint8(i) {
			ok = ok && r == int16(p.available)-1
		}
	}
	ok = ok && (p.available == 0 || int(p.next) < n)
	ok = ok && cnt == int(p.available)
	return ok
}

func vArbBitPool(n int) (*bitPool, *vBitPoolGhost) {
	p := newBitPool()
	g := &vBitPoolGhost{}
	p.length = vU8("length")
	p.next = vU8("next")
	p.available = vU8("avail")
	for i := 0; i < n; i++ {
		p.bits[i] = vU8("bits")
		g.rank[i] = int16(vU16("rank"))
	}
	for i := n; i < vBPN; i++ {
		g.rank[i] = -1
	}
	vassume(vpure(func() bool { return invBitPool(&p, g, n) }))
	return &p, g
}

func vBitPoolGet(n int) {
	p, g := vArbBitPool(n)
	oldLen, oldAvail, oldNext := p.length, p.available, p.next
	full := p.available == 0 && int(p.length) >= mask64TotalBits
	var b uint8
	panicked := vpanics(func() { b = p.Get() })
	if full {
		vcheck("exhausted-panics", panicked)
		vcheck("exhausted-no-effect", p.length == oldLen && p.available == oldAvail && p.next == oldNext)
		vreach("exhausted")
		return
	}
	vcheck("no-panic", !panicked)
	if panicked {
		return
	}
	vcheck("in-range", b < mask64TotalBits)
	if oldAvail > 0 {
		vcheck("recycled-was-free", int(b) < n && g.rank[b] == int16(oldAvail)-1)
		vcheck("avail-dec", p.available == oldAvail-1 && p.length == oldLen)
		if int(b) < n {
			g.rank[b] = -1
		}
		vreach("recycled")
	} else {
		vcheck("fresh-bit", b == oldLen && p.length == oldLen+1 && p.available == 0)
		vreach("fresh")
	}
	if int(p.length) <= n {
		vcheck("inv-after", vpure(func() bool { return invBitPool(p, g, n) }))
	}
}

func vBitPoolRecycle(n int) {
	p, g := vArbBitPool(n)
	b := vU8("b")
	vassume(int(b) < n && b < p.length && g.rank[b] < 0) // a held bit
	oldAvail, oldLen := p.available, p.length
	p.Recycle(b)
	vcheck("avail-inc", p.available == oldAvail+1 && p.length == oldLen)
	vcheck("head", p.next == b)
	g.rank[b] = int16(oldAvail)
	vcheck("inv-after", vpure(func() bool { return invBitPool(p, g, n) }))
	// LIFO: the next Get returns b again
	g2 := p.Get()
	vcheck("lifo", g2 == b)
	vreach("end")
}

func VerifC07_BitPoolGet8()      { vBitPoolGet(8) }
func VerifC07_BitPoolRecycle8()  { vBitPoolRecycle(8) }
