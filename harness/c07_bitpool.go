//go:build verif

package ecs

// ---- C07-H1: bit pool / lock mask, one inductive step from an arbitrary valid state.
//
// Ghost: rank[i] >= 0 iff bit i is on the free chain, rank = distance from the chain's tail
// (head has rank available-1). Held bits H = [0,length) \ free.

const vBPN = 64

type vBitPoolGhost struct {
	rank [vBPN]int16
}

// invBitPool: I-lock restricted to the pool (free chain is exactly the non-held bits below length).
func invBitPool(p *bitPool, g *vBitPoolGhost, n int) bool {
	ok := int(p.length) <= n && p.available <= p.length && len(p.bits) == mask64TotalBits
	cnt := 0
	for i := 0; i < n; i++ {
		r := g.rank[i]
		isFree := r >= 0
		if isFree {
			cnt++
		}
		ok = ok && r >= -1 && r < int16(p.available)
		ok = ok && (!isFree || uint8(i) < p.length)
		// successor on the chain has rank-1
		if isFree && r > 0 {
			nx := p.bits[i]
			ok = ok && int(nx) < n
			for j := 0; j < n; j++ {
				if nx == uint8(j) {
					ok = ok && g.rank[j] == r-1
				}
			}
		}
		// ranks are distinct among free bits
		for j := i + 1; j < n; j++ {
			ok = ok && !(isFree && g.rank[j] >= 0 && g.rank[j] == r)
		}
		// head
		if p.available > 0 && p.next == uint8(i) {
			ok = ok && r == int16(p.available)-1
		}
	}
	ok = ok && (p.available == 0 || int(p.next) < n)
	ok = ok && cnt == int(p.available)
	return ok
}

func vArbBitPool(n int) (*bitPool, *vBitPoolGhost) {
	p := newBitPool()
	g := &vBitPoolGhost{}
	p.length = vU8("length")
	p.next = vU8("next")
	p.available = vU8("avail")
	for i := 0; i < n; i++ {
		p.bits[i] = vU8("bits")
		g.rank[i] = int16(vU16("rank"))
	}
	for i := n; i < vBPN; i++ {
		g.rank[i] = -1
	}
	vassume(vpure(func() bool { return invBitPool(&p, g, n) }))
	return &p, g
}

func vBitPoolGet(n int) {
	p, g := vArbBitPool(n)
	oldLen, oldAvail, oldNext := p.length, p.available, p.next
	full := p.available == 0 && int(p.length) >= mask64TotalBits
	var b uint8
	panicked := vpanics(func() { b = p.Get() })
	if full {
		vcheck("exhausted-panics", panicked)
		vcheck("exhausted-no-effect", p.length == oldLen && p.available == oldAvail && p.next == oldNext)
		vreach("exhausted")
		return
	}
	vcheck("no-panic", !panicked)
	if panicked {
		return
	}
	vcheck("in-range", b < mask64TotalBits)
	if oldAvail > 0 {
		vcheck("recycled-was-free", int(b) < n && g.rank[b] == int16(oldAvail)-1)
		vcheck("avail-dec", p.available == oldAvail-1 && p.length == oldLen)
		if int(b) < n {
			g.rank[b] = -1
		}
		vreach("recycled")
	} else {
		vcheck("fresh-bit", b == oldLen && p.length == oldLen+1 && p.available == 0)
		vreach("fresh")
	}
	if int(p.length) <= n {
		vcheck("inv-after", vpure(func() bool { return invBitPool(p, g, n) }))
	}
}

func vBitPoolRecycle(n int) {
	p, g := vArbBitPool(n)
	b := vU8("b")
	vassume(int(b) < n && b < p.length && g.rank[b] < 0) // a held bit
	oldAvail, oldLen := p.available, p.length
	p.Recycle(b)
	vcheck("avail-inc", p.available == oldAvail+1 && p.length == oldLen)
	vcheck("head", p.next == b)
	g.rank[b] = int16(oldAvail)
	vcheck("inv-after", vpure(func() bool { return invBitPool(p, g, n) }))
	// LIFO: the next Get returns b again
	g2 := p.Get()
	vcheck("lifo", g2 == b)
	vreach("end")
}

func VerifC07_BitPoolGet8()     { vBitPoolGet(8) }
func VerifC07_BitPoolRecycle8() { vBitPoolRecycle(8) }

// Reset from an arbitrary valid pool: afterwards the pool behaves as new
// (fresh bits 0,1,2.. in order, nothing recycled).
func VerifC07_BitPoolReset() {
	p, _ := vArbBitPool(8)
	p.Reset()
	vcheck("reset-fields", p.length == 0 && p.available == 0)
	b0 := p.Get()
	b1 := p.Get()
	vcheck("fresh-sequence", b0 == 0 && b1 == 1)
	p.Recycle(b0)
	vcheck("recycle-after-reset", p.Get() == b0 && p.available == 0)
	vreach("end")
}

// ---- lock = bit pool + 64-bit mask. Ghost: held set H as a mask.
func invLock(l *lock, g *vBitPoolGhost, n int) bool {
	ok := invBitPool(&l.bitPool, g, n)
	for i := 0; i < vBPN; i++ {
		held := i < int(l.bitPool.length) && g.rank[i] < 0
		ok = ok && l.locks.Get(uint8(i)) == held
	}
	return ok
}

func vArbLock(n int) (*lock, *vBitPoolGhost) {
	p, g := vArbBitPool(n)
	l := &lock{bitPool: *p}
	l.locks.bits = vU64("locks")
	vassume(vpure(func() bool { return invLock(l, g, n) }))
	return l, g
}

func vLockStep(n int, safe bool) {
	l, g := vArbLock(n)
	oldMask := l.locks.bits
	wasLocked := l.IsLocked()
	vcheck("islocked-iff-held", wasLocked == (oldMask != 0))
	full := l.bitPool.available == 0 && int(l.bitPool.length) >= mask64TotalBits
	var b uint8
	panicked := vpanics(func() {
		if safe {
			b = l.LockSafe()
		} else {
			b = l.Lock()
		}
	})
	if full {
		vcheck("65th-lock-panics", panicked)
		vcheck("mask-unchanged", l.locks.bits == oldMask)
		vreach("exhausted")
		return
	}
	vcheck("no-panic", !panicked)
	if panicked {
		return
	}
	vcheck("bit-was-free", b < 64 && oldMask&(1<<b) == 0)
	vcheck("exactly-that-bit-set", l.locks.bits == oldMask|(1<<b))
	vcheck("locked", l.IsLocked())
	if int(b) < n && int(l.bitPool.length) <= n {
		g.rank[b] = -1
		vcheck("inv-after-lock", vpure(func() bool { return invLock(l, g, n) }))
	}
	// unlock of a bit that is not held panics without effect
	u := vU8("u")
	vassume(u < 64)
	held := l.locks.bits&(1<<u) != 0
	m2 := l.locks.bits
	av2 := l.bitPool.available
	p2 := vpanics(func() {
		if safe {
			l.UnlockSafe(u)
		} else {
			l.Unlock(u)
		}
	})
	if !held {
		vcheck("unbalanced-unlock-panics", p2)
		vcheck("unbalanced-no-effect", l.locks.bits == m2 && l.bitPool.available == av2)
		if safe {
			vcheck("mutex-released-after-panic", !vpanics(func() { l.mu.Lock(); l.mu.Unlock() }))
		}
		vreach("unbalanced")
		return
	}
	vcheck("unlock-no-panic", !p2)
	vcheck("exactly-that-bit-cleared", l.locks.bits == m2&^(1<<u))
	vcheck("unlocked-iff-none-held", l.IsLocked() == (l.locks.bits != 0))
	if int(u) < n && int(l.bitPool.length) <= n {
		g.rank[u] = int16(av2)
		vcheck("inv-after-unlock", vpure(func() bool { return invLock(l, g, n) }))
	}
	vreach("end")
}

func VerifC07_LockStep8()     { vLockStep(8, false) }
func VerifC07_LockStepSafe8() { vLockStep(8, true) }

func VerifC07_LockReset() {
	l, _ := vArbLock(8)
	l.Reset()
	vcheck("unlocked", !l.IsLocked() && l.locks.bits == 0)
	a := l.Lock()
	b := l.Lock()
	vcheck("distinct-bits-after-reset", a != b && l.locks.bits == (1<<a)|(1<<b))
	l.Unlock(a)
	vcheck("still-locked-by-b", l.IsLocked())
	l.Unlock(b)
	vcheck("unlocked-after-both", !l.IsLocked())
	vreach("end")
}

// up to 64 locks can be held at once; the 65th panics without effect; any release order works
func VerifC07_Lock64() {
	l := newLock()
	var bits [64]uint8
	for i := 0; i < 64; i++ {
		bits[i] = l.Lock()
	}
	vcheck("all-64-held", l.locks.bits == ^uint64(0))
	vcheck("65th-panics", vpanics(func() { l.Lock() }))
	vcheck("no-effect", l.locks.bits == ^uint64(0) && l.bitPool.length == 64 && l.bitPool.available == 0)
	// release an arbitrary one and take it again
	k := vU8("k")
	vassume(k < 64)
	vmerge(func() { l.Unlock(k) })
	vcheck("one-free", l.locks.bits == ^uint64(0)&^(1<<k))
	var b uint8
	vmerge(func() { b = l.Lock() })
	vcheck("same-bit-again", b == k && l.locks.bits == ^uint64(0))
	vreach("exhausted")
}

// ---- C07-H3: while a query is open every structural operation panics without effect;
// reads, writes through component pointers, Set, event emission and further queries work;
// the world unlocks exactly when the last query is closed.
func vLockedWorld(kind int, op int) {
	vMode = 0
	W := vShapeFor(kind)
	f := NewFilter1[vPos](W.w)
	q := f.Query()
	vcheck("locked-by-open-query", W.w.IsLocked())
	q.Next()
	p := q.Get()
	vLocked = true
	W.applyOp(op, "locked")
	// allowed while locked
	x := vU32("x")
	j := W.indexOf(q.Entity())
	vcheck("write-through-query-pointer-works", !vpanics(func() { p.X = x }))
	if j >= 0 {
		W.e[j].pos.X = x
	}
	vcheck("nested-query-and-count-work", !vpanics(func() {
		q2 := NewUnsafeFilter(W.w, W.id[cA]).Query()
		_ = q2.Count()
		q2.Close()
	}))
	vcheck("emit-works", !vpanics(func() { W.w.Event(3).Emit(Entity{}) }))
	vcheck("still-locked", W.w.IsLocked())
	W.checkAll("locked/after")
	q.Close()
	vLocked = false
	vcheck("unlocked-after-close", !W.w.IsLocked())
	q.Close()
	vcheck("second-close-harmless", !W.w.IsLocked())
	W.checkAll("unlocked")
	vreach("end")
}

func VerifC07_LockedNew()          { vLockedWorld(0, 0) }
func VerifC07_LockedAdd()          { vLockedWorld(0, 1) }
func VerifC07_LockedRemove()       { vLockedWorld(0, 2) }
func VerifC07T_LockedExchange()    { vNoMul = true; vLockedWorld(1, 3) }
func VerifC07_LockedSetRelations() { vLockedWorld(1, 4) }
func VerifC07_LockedRemoveEntity() { vLockedWorld(1, 5) }
func VerifC07_LockedCopy()         { vLockedWorld(0, 6) }
func VerifC07_LockedSet()          { vLockedWorld(0, 7) }
func VerifC07_LockedShrink()       { vLockedWorld(0, 8) }

// batch operations, Reset, NewEntities and registration of a new component type
func VerifC07_LockedBatchAndReset() {
	vMode = 0
	W := vShapeFor(1)
	q := NewFilter1[vPos](W.w).Query()
	vLocked = true
	all := NewFilter1[vPos](W.w)
	which := vPick("call", 7)
	W.expectReject("locked/batch", func() {
		switch which {
		case 0:
			W.w.RemoveEntities(all.Batch(), nil)
		case 1:
			NewMap1[vVel](W.w).AddBatch(all.Without(C[vVel]()).Batch(), &vVel{1})
		case 2:
			NewMap1[vPos](W.w).RemoveBatch(all.Batch(), nil)
		case 3:
			W.w.Reset()
		case 4:
			W.w.NewEntities(2, nil)
		case 5:
			_ = ComponentID[vRes](W.w)
		case 6:
			NewMap1[vChild](W.w).SetRelationsBatch(NewFilter1[vChild](W.w).Batch(), nil, RelIdx(0, Entity{}))
		}
	})
	q.Close()
	vLocked = false
	W.checkAll("unlocked")
	vreach("end")
}

// ---- C07-H2: interleavings of opening, advancing, exhausting and closing several queries
// (typed, unsafe, cached; nested and overlapping) with attempted structural operations.
// Model: the set of open queries. The world is locked iff that set is non-empty, a structural
// operation panics iff locked, closing a finished or closed query again changes nothing.
const vQN = 3

type vQSlot struct {
	kind int // 0 typed Filter1, 1 unsafe, 2 cached Filter1
	open bool
	used bool
	q1   Query1[vPos]
	qu   UnsafeQuery
}

func vQueryInterleavings(steps int) {
	W := vShapePlain(1, 61, 1) // fixed placement: the interleavings are not multiplied by the thorough placements
	vTighten(W.w)
	f := NewFilter1[vPos](W.w)
	fc := NewFilter1[vPos](W.w).Register()
	uf := NewUnsafeFilter(W.w, W.id[cA])
	var qs [vQN]vQSlot
	nOpen := func() int {
		n := 0
		for i := range qs {
			if qs[i].open {
				n++
			}
		}
		return n
	}
	for s := 0; s < steps; s++ {
		i := vPick("slot", vQN)
		sl := &qs[i]
		switch vPick("action", 4) {
		case 0: // open (only on a slot never used, so that handles stay distinct)
			if sl.used {
				continue
			}
			sl.kind = i // slot 0: typed, 1: unsafe, 2: cached
			switch sl.kind {
			case 0:
				sl.q1 = f.Query()
			case 1:
				sl.qu = uf.Query()
			case 2:
				sl.q1 = fc.Query()
			}
			sl.open, sl.used = true, true
		case 1: // advance one step; exhaustion closes
			if !sl.open {
				continue
			}
			var more bool
			if sl.kind == 1 {
				more = sl.qu.Next()
			} else {
				more = sl.q1.Next()
			}
			if !more {
				sl.open = false
			}
		case 2: // close (also a finished / closed / never iterated one)
			if !sl.used {
				continue
			}
			vcheck("close-no-panic", !vpanics(func() {
				if sl.kind == 1 {
					sl.qu.Close()
				} else {
					sl.q1.Close()
				}
			}))
			sl.open = false
		case 3: // attempted structural operation
			locked := nOpen() > 0
			var h Entity
			p := vpanics(func() { h = W.w.NewEntity() })
			vcheck("structural-op-panics-iff-locked", p == locked)
			if !p {
				W.e[W.n] = vEnt{h: h, alive: true}
				W.n++
			}
		}
		vcheck("locked-iff-some-query-open", W.w.IsLocked() == (nOpen() > 0))
		vcheck("stats-locked-agrees", W.w.Stats().Locked == (nOpen() > 0))
	}
	// exhaust / close everything: unlocked, lock bits all returned
	for i := range qs {
		if qs[i].open {
			if qs[i].kind == 1 {
				qs[i].qu.Close()
			} else {
				qs[i].q1.Close()
			}
			qs[i].open = false
		}
	}
	vcheck("unlocked-when-all-closed", !W.w.IsLocked())
	lk := &W.w.storage.locks
	vcheck("all-lock-bits-returned", lk.locks.bits == 0 && lk.bitPool.available == lk.bitPool.length)
	vLocked = false
	W.checkAll("end")
	vreach("end")
}

func VerifC07_QueryInterleavings3()  { vQueryInterleavings(3) }
func VerifC07T_QueryInterleavings4() { vNoMul = true; vQueryInterleavings(4) }

// ---- C07-H3: query creations that are rejected (or that register a new component type on
// the way) never leave a lock bit behind: "unlocked exactly when the last open query has
// finished or been closed". Whatever the call does — panic or return a query — afterwards
// the lock state is the model's: not locked after a panic; locked until Close otherwise.
type vLateRel struct{ RelationMarker }

func VerifC07_RejectedQueryCreation() {
	vMode = 0
	W := vShapeFor(1)
	dead := Entity{}
	for j := 0; j < W.n; j++ {
		if !W.e[j].alive {
			dead = W.e[j].h
		}
	}
	alive := W.e[0].h
	outer := vPick("outer-query-open", 2) == 1
	var oq Query1[vPos]
	if outer {
		oq = NewFilter1[vPos](W.w).Query()
	}
	var uq UnsafeQuery
	var q2 Query2[vChild, vPos]
	kind := vPick("creation", 8)
	isUnsafe := kind < 4
	p := vpanics(func() {
		switch kind {
		case 0: // index relation in the unsafe API
			uq = NewUnsafeFilter(W.w, W.id[cR1]).Query(RelIdx(0, alive))
		case 1: // relation given by a component type that is not registered yet
			uq = NewUnsafeFilter(W.w, W.id[cR1]).Query(Rel[vLateRel](alive))
		case 2: // valid
			uq = NewUnsafeFilter(W.w, W.id[cR1]).Query(RelID(W.id[cR1], alive))
		case 3: // second of two relations invalid
			uq = NewUnsafeFilter(W.w, W.id[cR1]).Query(RelID(W.id[cR1], alive), RelIdx(1, alive))
		case 4: // dead target per query
			q2 = NewFilter2[vChild, vPos](W.w).Query(RelIdx(0, dead))
		case 5: // relation index of a non-relation component
			q2 = NewFilter2[vChild, vPos](W.w).Query(RelIdx(1, alive))
		case 6: // relation index out of range
			q2 = NewFilter2[vChild, vPos](W.w).Query(RelIdx(2, alive))
		case 7: // valid
			q2 = NewFilter2[vChild, vPos](W.w).Query(RelIdx(0, alive))
		}
	})
	if p {
		vnote("creation-rejected")
		vcheck("rejected-creation-holds-no-lock", W.w.IsLocked() == outer)
	} else {
		vcheck("created-query-locks", W.w.IsLocked())
		if isUnsafe {
			uq.Close()
		} else {
			q2.Close()
		}
		vcheck("closed-query-unlocks", W.w.IsLocked() == outer)
	}
	if outer {
		oq.Close()
	}
	vcheck("finally-unlocked", !W.w.IsLocked() && !W.w.Stats().Locked)
	var bits uint64
	bits = W.w.storage.locks.locks.bits
	vcheck("no-lock-bit-left", bits == 0)
	vLocked = false
	W.checkAll("after")
	vreach("end")
}

// ---- "closing a finished or closed query again is harmless" — also when its lock bit has
// meanwhile been handed to another query: for every pair of query kinds (typed, unsafe,
// cached), A finished by Close or by exhaustion, B opened (receives the recycled bit), A closed
// again (twice): B still locks the world, structural operations still panic, B ends normally.
func VerifC07_StaleCloseAfterBitReuse() {
	W := vShapeFor(0)
	f := NewFilter1[vPos](W.w)
	fc := NewFilter1[vPos](W.w).Register()
	uf := NewUnsafeFilter(W.w, W.id[cA])
	var a, b vQSlot
	a.kind, b.kind = vPick("kind-a", 3), vPick("kind-b", 3)
	open := func(s *vQSlot) {
		switch s.kind {
		case 0:
			s.q1 = f.Query()
		case 1:
			s.qu = uf.Query()
		case 2:
			s.q1 = fc.Query()
		}
	}
	closeQ := func(s *vQSlot) {
		if s.kind == 1 {
			s.qu.Close()
		} else {
			s.q1.Close()
		}
	}
	open(&a)
	if vPick("finish-a-by", 2) == 0 {
		closeQ(&a)
	} else {
		n := 0
		for n < 2*vNE {
			more := false
			if a.kind == 1 {
				more = a.qu.Next()
			} else {
				more = a.q1.Next()
			}
			if !more {
				break
			}
			n++
		}
	}
	vcheck("unlocked-after-a", !W.w.IsLocked())
	open(&b)
	vcheck("locked-by-b", W.w.IsLocked())
	vcheck("stale-close-no-panic", !vpanics(func() { closeQ(&a); closeQ(&a) }))
	vcheck("still-locked-by-b", W.w.IsLocked() && W.w.Stats().Locked)
	vcheck("structural-op-still-rejected", vpanics(func() { W.w.NewEntity() }))
	n := 0
	for n < 2*vNE {
		more := false
		if b.kind == 1 {
			more = b.qu.Next()
		} else {
			more = b.q1.Next()
		}
		if !more {
			break
		}
		n++
	}
	vcheck("b-iterates-and-ends-normally", n > 0 && !W.w.IsLocked())
	closeQ(&b)
	closeQ(&a)
	lk := &W.w.storage.locks
	vcheck("all-lock-bits-returned", lk.locks.bits == 0 && lk.bitPool.available == lk.bitPool.length)
	W.checkAll("end")
	vreach("end")
}
