//go:build verif

package ecs

// ---- C03/C05: queries over shape worlds with a FULLY SYMBOLIC filter
// (with-mask, without-mask, hasWithout: 256 bits each) and a symbolic relation
// target (id and generation symbolic: alive, dead, recycled, zero are all covered).
// The real iteration forks on its own decisions; on every path the visited
// multiset must equal the model set {e alive | match(e)}.

type vQuerySpec struct {
	f       filter
	hasRel  bool
	relComp int
	target  Entity
	// optional second relation constraint (on the other relation component)
	hasRel2  bool
	relComp2 int
	target2  Entity
}

func (W *vWorld) entMask(i int) bitMask {
	var m bitMask
	for c := 0; c < vNC; c++ {
		if W.e[i].has[c] {
			m.Set(W.id[c].id)
		}
	}
	return m
}

// model predicate (A.3): with ⊆ mask ∧ (¬hasWithout ∨ without ∩ mask = ∅) ∧ target agrees (id AND generation)
func (W *vWorld) matches(i int, q *vQuerySpec) bool {
	m := &W.e[i]
	if !m.alive {
		return false
	}
	em := W.entMask(i)
	ok := vSubset(&q.f.mask, &em) && (!q.f.hasWithout || vDisjoint(&q.f.without, &em))
	if q.hasRel {
		ok = ok && m.has[q.relComp] && m.tgt[q.relComp-cR1] == q.target
	}
	if q.hasRel2 {
		ok = ok && m.has[q.relComp2] && m.tgt[q.relComp2-cR1] == q.target2
	}
	return ok
}

func (W *vWorld) arbQuerySpec(withRel bool) *vQuerySpec {
	q := &vQuerySpec{f: filter{mask: vArbMask("with"), without: vArbMask("without"), hasWithout: vBool("hasWithout"), cache: maxCacheID}}
	if withRel {
		q.hasRel = true
		q.relComp = cR1 + vPick("relcomp", 2)
		q.target = W.arbTarget("t")
		// a relation constraint requires the relation component in the filter (API precondition)
		vassume(q.f.mask.Get(W.id[q.relComp].id))
	}
	return q
}

// arbTarget: a symbolic handle (id and generation) that was issued at some time, or zero
func (W *vWorld) arbTarget(l string) Entity {
	t := Entity{entityID(vU32(l + ".id")), vU32(l + ".gen")}
	vassume(int(t.id) < len(W.w.storage.entityPool.entities) && t.id != 1) // forged ids and the reserved wildcard id are outside the claim
	// only handles that were issued at some time: gen <= newest generation issued for that id
	issued := vpure(func() bool {
		ok := t.id == 0
		for j := 0; j < W.n; j++ {
			ok = ok || (t.id == W.e[j].h.id && t.gen <= W.e[j].h.gen)
		}
		return ok
	})
	vassume(issued)
	return t
}

// arbQuerySpec2: constraints on BOTH relation components (R1 -> target, R2 -> target2)
func (W *vWorld) arbQuerySpec2() *vQuerySpec {
	q := &vQuerySpec{f: filter{mask: vArbMask("with"), without: vArbMask("without"), hasWithout: vBool("hasWithout"), cache: maxCacheID}}
	q.hasRel, q.relComp, q.target = true, cR1, W.arbTarget("t1")
	q.hasRel2, q.relComp2, q.target2 = true, cR2, W.pickTarget("t2") // zero, alive, dead and recycled handles (picked, not symbolic: keeps the typed API's Alive lookups from squaring the path count)
	vassume(q.f.mask.Get(W.id[cR1].id) && q.f.mask.Get(W.id[cR2].id))
	return q
}

func (W *vWorld) indexOf(e Entity) int {
	for j := 0; j < W.n; j++ {
		if W.e[j].h == e {
			return j
		}
	}
	return -1
}

func (W *vWorld) rel(q *vQuerySpec) []Relation {
	if !q.hasRel {
		return nil
	}
	if q.hasRel2 {
		return []Relation{RelID(W.id[q.relComp], q.target), RelID(W.id[q.relComp2], q.target2)}
	}
	return []Relation{RelID(W.id[q.relComp], q.target)}
}

// checkVisits compares the visit counts with the model
func (W *vWorld) checkVisits(tag string, q *vQuerySpec, visits *[vNE]int, strangers int, total int) int {
	vcheck(tag+"/no-unknown-entity", strangers == 0)
	n := 0
	for j := 0; j < W.n; j++ {
		m := vpure(func() bool { return W.matches(j, q) })
		exp := 0
		if m {
			exp = 1
		}
		vcheck(tag+"/visited-exactly-once-iff-match", visits[j] == exp)
		n += exp
	}
	vcheck(tag+"/total", total == n)
	return vconcreteInt(n) // the count is a sum of (merged) 0/1 terms: make it concrete for the callers' loops
}

// unsafe query walk + Count + EntityAt
func vUnsafeQueryWalk(W *vWorld, q *vQuerySpec, tag string) {
	uf := UnsafeFilter{filter: q.f, world: W.w}
	qu := uf.Query(W.rel(q)...)
	vcheck(tag+"/locked-while-open", W.w.IsLocked())
	var visits [vNE]int
	var order [vNE]Entity
	strangers, total := 0, 0
	for qu.Next() {
		e := qu.Entity()
		j := W.indexOf(e)
		if j < 0 {
			strangers++
			continue
		}
		visits[j]++
		if total < vNE {
			order[total] = e
		}
		total++
		// yielded data is the entity's live data
		okData := true
		for c := 0; c < vNC; c++ {
			okData = okData && qu.Has(W.id[c]) == W.e[j].has[c]
			if W.e[j].has[c] {
				okData = okData && qu.Get(W.id[c]) == W.u.Get(e, W.id[c])
			}
		}
		if W.e[j].has[cR1] {
			okData = okData && qu.GetRelation(W.id[cR1]) == W.e[j].tgt[0]
		}
		if W.e[j].has[cR2] {
			okData = okData && qu.GetRelation(W.id[cR2]) == W.e[j].tgt[1]
		}
		vcheck(tag+"/live-data", okData)
		if total > vNE {
			break
		}
	}
	vcheck(tag+"/unlocked-after-exhaustion", !W.w.IsLocked())
	n := W.checkVisits(tag, q, &visits, strangers, total)
	// Count and EntityAt of a second query of the same filter (merged, no forking)
	q2 := uf.Query(W.rel(q)...)
	var cnt int
	cnt = q2.Count()
	vcheck(tag+"/count", cnt == n)
	if n > 0 {
		i := vU8("at")
		vassume(int(i) < n)
		var ea Entity
		ea = q2.EntityAt(int(i))
		want := vpure(func() bool {
			ok := true
			for k := 0; k < n; k++ {
				if int(i) == k {
					ok = ok && ea == order[k]
				}
			}
			return ok
		})
		vcheck(tag+"/entity-at", want)
	}
	q2.Close()
	vcheck(tag+"/unlocked-after-close", !W.w.IsLocked())
	q2.Close()
	vcheck(tag+"/close-twice-harmless", !W.w.IsLocked())
}

func vShapeFor(kind int) *vWorld {
	if kind == 0 {
		W := vShapePlain(1, 60, 1)
		vTighten(W.w)
		return W
	}
	v := vRelVariants[vPick("variant", 3)]
	W := vShapeRel(1, 60, v[0] == 1, v[1])
	vTighten(W.w)
	return W
}

func VerifC03_UnsafeQueryPlain() {
	W := vShapeFor(0)
	vUnsafeQueryWalk(W, W.arbQuerySpec(false), "walk")
	vreach("end")
}
func VerifC03_UnsafeQueryRel() {
	W := vShapeFor(1)
	vUnsafeQueryWalk(W, W.arbQuerySpec(false), "walk")
	vreach("end")
}
func VerifC03_UnsafeQueryRelTarget() {
	W := vShapeFor(1)
	vUnsafeQueryWalk(W, W.arbQuerySpec(true), "walk")
	vreach("end")
}

// typed query (arity 1 over vPos, arity 2 over vChild+vPos): same model, typed Get pointers
func vTypedQuery1Walk(W *vWorld, q *vQuerySpec, cached bool, tag string) {
	vTypedQuery1WalkMid(W, q, cached, tag, nil)
}

// mid runs between registration and the query (C05: the cache must follow the world)
func vTypedQuery1WalkMid(W *vWorld, q *vQuerySpec, cached bool, tag string, mid func()) {
	f := NewFilter1[vPos](W.w)
	vassume(q.f.mask.Get(W.id[cA].id))
	f.filter.mask, f.filter.without, f.filter.hasWithout = q.f.mask, q.f.without, q.f.hasWithout
	if cached {
		f.Register()
	}
	if mid != nil {
		mid()
	}
	qu := f.Query()
	var visits [vNE]int
	strangers, total := 0, 0
	for qu.Next() {
		e := qu.Entity()
		j := W.indexOf(e)
		if j < 0 {
			strangers++
			continue
		}
		visits[j]++
		total++
		vcheck(tag+"/typed-pointer-is-live-data", qu.Get() == W.getPos(e))
		if total > vNE {
			break
		}
	}
	vcheck(tag+"/unlocked-after-exhaustion", W.w.IsLocked() == vOuterOpen)
	n := W.checkVisits(tag, q, &visits, strangers, total)
	q2 := f.Query()
	var cnt int
	cnt = q2.Count()
	vcheck(tag+"/count", cnt == n)
	q2.Close()
	if cached {
		f.Unregister()
		vcheck(tag+"/unregistered", f.filter.cache == maxCacheID && len(W.w.storage.cache.filters) == W.nStanding)
	}
}

func VerifC03_TypedQuery1Plain() {
	W := vShapeFor(0)
	vTypedQuery1Walk(W, W.arbQuerySpec(false), false, "walk")
	vreach("end")
}
func VerifC05_CachedQuery1Plain() {
	W := vShapeFor(0)
	vTypedQuery1Walk(W, W.arbQuerySpec(false), true, "cached")
	vreach("end")
}

// arity 2 with a relation target given in the filter or per query; cached or not
func vTypedQuery2Rel(W *vWorld, q *vQuerySpec, cached, perQuery bool, tag string) {
	vTypedQuery2RelMid(W, q, cached, perQuery, tag, nil)
}

func vTypedQuery2RelMid(W *vWorld, q *vQuerySpec, cached, perQuery bool, tag string, mid func()) {
	f := NewFilter2[vChild, vPos](W.w)
	vassume(q.f.mask.Get(W.id[cA].id) && q.relComp == cR1)
	f.filter.mask, f.filter.without, f.filter.hasWithout = q.f.mask, q.f.without, q.f.hasWithout
	var rel []Relation
	ok := W.targetOK(q.target) // typed API rejects dead targets up front
	if !perQuery {
		if !ok {
			vcheck(tag+"/dead-target-rejected", vpanics(func() { f.Relations(RelIdx(0, q.target)) }))
			return
		}
		f.Relations(RelIdx(0, q.target))
	} else {
		rel = []Relation{RelIdx(0, q.target)}
	}
	if cached {
		f.Register()
	}
	if mid != nil {
		mid()
		ok = W.targetOK(q.target) // the operation may have removed the target
	}
	if perQuery && !ok {
		vcheck(tag+"/dead-target-rejected", vpanics(func() { f.Query(rel...) }))
		vcheck(tag+"/rejected-query-holds-no-lock", W.w.IsLocked() == vOuterOpen)
		return
	}
	qu := f.Query(rel...)
	var visits [vNE]int
	strangers, total := 0, 0
	for qu.Next() {
		e := qu.Entity()
		j := W.indexOf(e)
		if j < 0 {
			strangers++
			continue
		}
		visits[j]++
		total++
		_, pp := qu.Get()
		vcheck(tag+"/typed-pointer-is-live-data", pp == W.getPos(e) && qu.GetRelation(0) == W.e[j].tgt[0])
		if total > vNE {
			break
		}
	}
	vcheck(tag+"/unlocked-after-exhaustion", W.w.IsLocked() == vOuterOpen)
	n := W.checkVisits(tag, q, &visits, strangers, total)
	q2 := f.Query(rel...)
	var cnt int
	cnt = q2.Count()
	vcheck(tag+"/count", cnt == n)
	q2.Close()
}

// arity 2 over both relation components: targets for R1 and R2 given in the filter, per
// query, or one each (split 0: both fixed, 1: R1 fixed + R2 per query, 2: R2 fixed + R1 per
// query, 3: both per query); walk, GetRelation, Count, EntityAt against the model
func vTypedQuery2TwoTargets(W *vWorld, q *vQuerySpec, cached bool, tag string) {
	f := NewFilter2[vChild, vChild2](W.w)
	f.filter.mask, f.filter.without, f.filter.hasWithout = q.f.mask, q.f.without, q.f.hasWithout
	split := vPick("split", 4)
	r1, r2 := RelIdx(0, q.target), RelIdx(1, q.target2)
	var fixed, rel []Relation
	switch split {
	case 0:
		fixed = []Relation{r1, r2}
	case 1:
		fixed, rel = []Relation{r1}, []Relation{r2}
	case 2:
		fixed, rel = []Relation{r2}, []Relation{r1}
	default:
		rel = []Relation{r1, r2}
	}
	ok1 := vpure(func() bool { return W.targetOK(q.target) })
	ok2 := vpure(func() bool { return W.targetOK(q.target2) })
	fixedOK := (split == 3) || (split == 0 && ok1 && ok2) || (split == 1 && ok1) || (split == 2 && ok2)
	if !fixedOK {
		vcheck(tag+"/dead-target-rejected", vpanics(func() { f.Relations(fixed...) }))
		return
	}
	if len(fixed) > 0 {
		f.Relations(fixed...)
	}
	if cached {
		f.Register()
	}
	if !(ok1 && ok2) {
		vcheck(tag+"/dead-target-rejected", vpanics(func() { f.Query(rel...) }))
		vcheck(tag+"/rejected-query-holds-no-lock", W.w.IsLocked() == vOuterOpen)
		return
	}
	qu := f.Query(rel...)
	var visits [vNE]int
	var order [vNE]Entity
	strangers, total := 0, 0
	for qu.Next() {
		e := qu.Entity()
		j := W.indexOf(e)
		if j < 0 {
			strangers++
			continue
		}
		visits[j]++
		if total < vNE {
			order[total] = e
		}
		total++
		vcheck(tag+"/relation-targets-are-live-data", qu.GetRelation(0) == W.e[j].tgt[0] && qu.GetRelation(1) == W.e[j].tgt[1])
		if total > vNE {
			break
		}
	}
	vcheck(tag+"/unlocked-after-exhaustion", W.w.IsLocked() == vOuterOpen)
	n := W.checkVisits(tag, q, &visits, strangers, total)
	q2 := f.Query(rel...)
	var cnt int
	cnt = q2.Count()
	vcheck(tag+"/count", cnt == n)
	if n > 0 {
		i := vU8("at")
		vassume(int(i) < n)
		var ea Entity
		ea = q2.EntityAt(int(i))
		want := vpure(func() bool {
			ok := true
			for k := 0; k < n; k++ {
				if int(i) == k {
					ok = ok && ea == order[k]
				}
			}
			return ok
		})
		vcheck(tag+"/entity-at", want)
	}
	q2.Close()
	vcheck(tag+"/unlocked-after-close", W.w.IsLocked() == vOuterOpen)
}

func VerifC03_TypedQuery2TwoTargets() {
	W := vShapeFor(1)
	vTypedQuery2TwoTargets(W, W.arbQuerySpec2(), false, "walk")
	vreach("end")
}
func VerifC05_CachedQuery2TwoTargets() {
	W := vShapeFor(1)
	vTypedQuery2TwoTargets(W, W.arbQuerySpec2(), true, "cached")
	vreach("end")
}
func VerifC03_UnsafeQueryTwoTargets() {
	W := vShapeFor(1)
	vUnsafeQueryWalk(W, W.arbQuerySpec2(), "walk")
	vreach("end")
}

func VerifC03_TypedQuery2RelFilter() {
	W := vShapeFor(1)
	vTypedQuery2Rel(W, W.arbQuerySpec(true), false, false, "walk")
	vreach("end")
}
func VerifC03_TypedQuery2RelPerQuery() {
	W := vShapeFor(1)
	vTypedQuery2Rel(W, W.arbQuerySpec(true), false, true, "walk")
	vreach("end")
}
func VerifC05_CachedQuery2RelFilter() {
	W := vShapeFor(1)
	vTypedQuery2Rel(W, W.arbQuerySpec(true), true, false, "cached")
	vreach("end")
}
func VerifC05_CachedQuery2RelPerQuery() {
	W := vShapeFor(1)
	vTypedQuery2Rel(W, W.arbQuerySpec(true), true, true, "cached")
	vreach("end")
}

// ---- C05-H1: register, then one structural operation (new table, recycled table,
// refilled empty table, target death, Shrink), then the cached result must still be the model set.

// small structural scenarios (model kept in step with the real world)
func (W *vWorld) cacheScenario(k int) {
	vMode = 1
	firstAlive := func(skip int) Entity {
		n := 0
		for j := 0; j < W.n; j++ {
			if W.e[j].alive && W.e[j].has[cA] && !W.e[j].has[cR1] {
				if n == skip {
					return W.e[j].h
				}
				n++
			}
		}
		return Entity{}
	}
	switch k {
	case 0, 1: // a new child of parent k: fills an emptied table or creates one
		if W.n < vNE {
			i := W.create([]int{cR1, cA}, firstAlive(k), Entity{})
			W.havocValues(i)
		}
	case 2: // child without target
		if W.n < vNE {
			i := W.create([]int{cR1, cA}, Entity{}, Entity{})
			W.havocValues(i)
		}
	case 3: // a two-relation child: new table in {R1,R2}
		if W.n < vNE {
			i := W.create([]int{cR1, cR2}, firstAlive(1), firstAlive(0))
			W.havocValues(i)
		}
	case 4, 5: // a target dies: its tables are emptied into the zero-target table and freed
		for j := 0; j < W.n; j++ {
			if W.e[j].alive && W.e[j].h == firstAlive(k-4) {
				W.removeEntity(j)
				break
			}
		}
	case 6:
		vclockbound(3599_000_000_000)
		W.w.Shrink()
	case 8: // a two-relation table loses one target, is freed, and is recycled with the SAME surviving other target
		surv := firstAlive(0)
		dying := firstAlive(1)
		for j := 0; j < W.n; j++ {
			if W.e[j].alive && W.e[j].h == dying {
				W.removeEntity(j)
				break
			}
		}
		if W.n+2 < vNE {
			i := W.create([]int{cA}, Entity{}, Entity{})
			W.havocValues(i)
			c := W.create([]int{cA, cR1, cR2}, W.e[i].h, surv)
			W.havocValues(c)
			c2 := W.create([]int{cR1, cR2}, W.e[i].h, surv)
			W.havocValues(c2)
		}
	case 9: // an idle relation archetype (only a free table): recycle it, grow it, empty it, free it again
		if W.n+2 < vNE {
			i := W.create([]int{cA}, Entity{}, Entity{})
			c1 := W.create([]int{cR1, cB}, W.e[i].h, Entity{})
			c2 := W.create([]int{cR1, cB}, W.e[i].h, Entity{})
			W.havocValues(i)
			W.removeEntity(c1)
			W.removeEntity(c2)
			W.removeEntity(i)
		}
	case 7: // target dies, then its freed table is recycled for another target
		for j := 0; j < W.n; j++ {
			if W.e[j].alive && W.e[j].h == firstAlive(1) {
				W.removeEntity(j)
				break
			}
		}
		if W.n < vNE {
			i := W.create([]int{cA}, Entity{}, Entity{})
			W.havocValues(i)
			if W.n < vNE {
				c := W.create([]int{cR1, cA}, W.e[i].h, Entity{})
				W.havocValues(c)
			}
		}
	}
}

func vCachedAfterOp(rel bool) {
	W := vShapeFor(1)
	q := W.arbQuerySpec(rel)
	mid := func() { W.cacheScenario(vPick("scenario", 9)) }
	if rel {
		vTypedQuery2RelMid(W, q, true, vPick("perquery", 2) == 1, "cached", mid)
	} else {
		vTypedQuery1WalkMid(W, q, true, "cached", mid)
	}
	vreach("end")
}

// uncached queries after the same structural scenarios (stale or duplicated index entries)
func VerifC03_UnsafeQueryAfterScenario() {
	W := vShapeRel(1, 60, true, 0)
	vTighten(W.w)
	W.cacheScenario(vPick("scenario", 9))
	vUnsafeQueryWalk(W, W.arbQuerySpec(true), "walk")
	vreach("end")
}
func VerifC03T_TypedQueryAfterScenario() {
	vNoMul = true
	W := vShapeFor(1)
	q := W.arbQuerySpec(true)
	vTypedQuery2RelMid(W, q, false, vPick("perquery", 2) == 1, "walk", func() { W.cacheScenario(vPick("scenario", 9)) })
	vreach("end")
}
func VerifC05_CachedAfterOp()    { vCachedAfterOp(false) }
func VerifC05_CachedAfterOpRel() { vCachedAfterOp(true) }

// ---- C05-H3: a cached query is open while filters are registered / unregistered
// (the API does not forbid it): the open query still yields exactly its own set.
func VerifC05_OpenQueryAcrossUnregister() {
	W := vShapeFor(1)
	fa := NewFilter1[vPos](W.w).Register()            // entities with A
	fb := NewFilter1[vChild](W.w).Register()          // entities with R1
	fc := NewFilter2[vChild, vChild2](W.w).Register() // entities with R1 and R2
	which := vPick("open", 2)
	act := vPick("action", 4)
	var visits [vNE]int
	total := 0
	step := func(e Entity) {
		if j := W.indexOf(e); j >= 0 {
			visits[j]++
		}
		total++
	}
	doAct := func() {
		switch act {
		case 0:
			fa.Unregister()
		case 1:
			fb.Unregister()
		case 2:
			fc.Unregister()
		case 3:
			NewFilter1[vVel](W.w).Register()
		}
	}
	wantComp := cA
	if which == 0 {
		q := fa.Query()
		if q.Next() {
			step(q.Entity())
			vcheck("register-unregister-while-open-no-panic", !vpanics(doAct))
			for q.Next() {
				step(q.Entity())
				if total > vNE {
					break
				}
			}
		}
	} else {
		wantComp = cR1
		q := fb.Query()
		if q.Next() {
			step(q.Entity())
			vcheck("register-unregister-while-open-no-panic", !vpanics(doAct))
			for q.Next() {
				step(q.Entity())
				if total > vNE {
					break
				}
			}
		}
	}
	ok := true
	for j := 0; j < W.n; j++ {
		exp := 0
		if W.e[j].alive && W.e[j].has[wantComp] {
			exp = 1
		}
		ok = ok && visits[j] == exp
	}
	vcheck("open-cached-query-yields-its-own-set", ok)
	vcheck("unlocked-after-exhaustion", !W.w.IsLocked())
	vreach("end")
}

// ---- the filter builder API produces the filter the model assumes (With / Without /
// Exclusive / Relations on typed filters, Without / Exclusive on unsafe filters)
func VerifC03_FilterBuilders() {
	W := vShapeFor(1)
	var with, without bitMask
	with.Set(W.id[cA].id)
	f := NewFilter1[vPos](W.w)
	if vPick("with", 2) == 1 {
		f.With(C[vChild](), C[vVel]())
		with.Set(W.id[cR1].id)
		with.Set(W.id[cB].id)
	}
	excl := vPick("excl", 3)
	switch excl {
	case 1:
		f.Without(C[vTag](), C[vPtrC]())
		without.Set(W.id[cT].id)
		without.Set(W.id[cP].id)
	case 2:
		f.Exclusive()
		without = with.Not()
	}
	vcheck("typed/with-mask", vMaskEq(&f.filter.mask, &with))
	vcheck("typed/without-mask", f.filter.hasWithout == (excl != 0) && (excl == 0 || vMaskEq(&f.filter.without, &without)))
	// the unsafe filter with the same lists is the same filter
	ids := []ID{W.id[cA]}
	if with.Get(W.id[cB].id) {
		ids = append(ids, W.id[cR1], W.id[cB])
	}
	uf := NewUnsafeFilter(W.w, ids...)
	switch excl {
	case 1:
		uf = uf.Without(W.id[cT], W.id[cP])
	case 2:
		uf = uf.Exclusive()
	}
	vcheck("unsafe/same-filter", vMaskEq(&uf.filter.mask, &f.filter.mask) && uf.filter.hasWithout == f.filter.hasWithout &&
		(!f.filter.hasWithout || vMaskEq(&uf.filter.without, &f.filter.without)))
	// both yield the same entities as the model of that filter
	q := &vQuerySpec{f: filter{mask: with, without: without, hasWithout: excl != 0, cache: maxCacheID}}
	vTypedCount := 0
	qq := f.Query()
	for qq.Next() {
		vTypedCount++
	}
	vUnsafeCount := 0
	uq := uf.Query()
	for uq.Next() {
		vUnsafeCount++
	}
	n := 0
	for j := 0; j < W.n; j++ {
		if W.matches(j, q) {
			n++
		}
	}
	vcheck("builders/same-result-as-model", vTypedCount == n && vUnsafeCount == n)
	// modifying a filter after it was queried or registered is rejected
	vcheck("modify-after-query-rejected", vpanics(func() { f.With(C[vTag]()) }))
	vreach("end")
}

// first use of a filter while other queries are open (nested use; for C13: the state a
// second goroutine finds): the lazily computed per-filter hints must not depend on the lock
// vOuterOpen: the walk runs while other queries are open (expected lock state afterwards)
var vOuterOpen bool

func vNestedFirstUse(kind int) {
	W := vShapeFor(kind)
	vOuterOpen = true
	outerU := NewUnsafeFilter(W.w, W.id[cA]).Query()
	outerT := NewFilter1[vVel](W.w).Query()
	outerT.Next()
	if kind == 0 {
		vTypedQuery1Walk(W, W.arbQuerySpec(false), false, "nested")
	} else {
		vTypedQuery2Rel(W, W.arbQuerySpec(true), false, vPick("per-query", 2) == 1, "nested")
	}
	vOuterOpen = false
	vcheck("outer-queries-still-lock", W.w.IsLocked())
	outerT.Close()
	outerU.Close()
	vcheck("unlocked-after-all-closed", !W.w.IsLocked())
	vreach("end")
}
func VerifC03_NestedFirstUsePlain() { vNestedFirstUse(0) }
func VerifC03_NestedFirstUseRel()   { vNestedFirstUse(1) }

// ---- the life cycle of ONE typed filter object: fixed targets or not, then every history
// of {Batch with a per-call target, Query with a per-query target, Query without, Register,
// Unregister} of the given length. Every Query must yield exactly the model set for ITS
// OWN relation constraint — nothing may leak from earlier Batch / Query / Register calls
// through the relation slices the filter object keeps.
func vFilterLifecycle(steps int) {
	W := vShapeFor(1)
	p0, p1 := W.e[0].h, W.e[1].h
	cands := [3]Entity{p0, p1, {}}
	f := NewFilter2[vChild, vPos](W.w)
	var mask bitMask
	mask.Set(W.id[cR1].id)
	mask.Set(W.id[cA].id)
	fixed := vPick("fixed-target", 2) == 1
	fixedT := p0
	if fixed {
		f.Relations(RelIdx(0, fixedT))
	}
	registered := false
	walk := func(tag string, hasT bool, t Entity, rel []Relation) {
		q := &vQuerySpec{f: filter{mask: mask, cache: maxCacheID}, hasRel: hasT, relComp: cR1, target: t}
		qc := f.Query(rel...)
		cnt := qc.Count()
		qc.Close()
		qu := f.Query(rel...)
		var visits [vNE]int
		strangers, total := 0, 0
		for qu.Next() {
			j := W.indexOf(qu.Entity())
			if j < 0 {
				strangers++
				continue
			}
			visits[j]++
			total++
			if total > vNE {
				break
			}
		}
		n := W.checkVisits(tag, q, &visits, strangers, total)
		vcheck(tag+"/count", cnt == n)
		vcheck(tag+"/unlocked", !W.w.IsLocked())
	}
	for s := 0; s < steps; s++ {
		switch vPick("action", 5) {
		case 0:
			if fixed {
				_ = f.Batch()
			} else {
				_ = f.Batch(RelIdx(0, cands[vPick("batch-target", 3)]))
			}
		case 1:
			if fixed {
				walk("query", true, fixedT, nil)
			} else {
				t := cands[vPick("query-target", 3)]
				walk("query", true, t, []Relation{RelIdx(0, t)})
			}
		case 2:
			if fixed {
				walk("query", true, fixedT, nil)
			} else {
				walk("query-all", false, Entity{}, nil)
			}
		case 3:
			if !registered {
				f.Register()
				registered = true
			}
		case 4:
			if registered {
				f.Unregister()
				registered = false
			}
		}
	}
	// whatever happened before: a final query per kind
	if fixed {
		walk("final", true, fixedT, nil)
	} else {
		walk("final-all", false, Entity{}, nil)
		walk("final-p1", true, p1, []Relation{RelIdx(0, p1)})
	}
	if registered {
		f.Unregister()
	}
	W.checkAll("after")
	vreach("end")
}

func VerifC05_FilterLifecycle()  { vFilterLifecycle(3) }
func VerifC05T_FilterLifecycle() { vNoMul = true; vFilterLifecycle(4) }
func VerifC03_FilterLifecycle()  { vFilterLifecycle(2) }
func VerifC14_FilterLifecycle()  { vFilterLifecycle(2) }

// two queries of ONE filter value open at the same time with different per-query targets
// (unsafe and typed): each keeps its own targets until it ends
func VerifC03_TwoOpenQueriesDifferentTargets() {
	W := vShapeFor(1)
	p0, p1 := W.e[0].h, W.e[1].h
	count := func(t Entity, needA bool) int {
		n := 0
		for j := 0; j < W.n; j++ {
			if W.e[j].alive && W.e[j].has[cR1] && W.e[j].tgt[0] == t && (!needA || W.e[j].has[cA]) {
				n++
			}
		}
		return n
	}
	uf := NewUnsafeFilter(W.w, W.id[cR1])
	qa := uf.Query(RelID(W.id[cR1], p0))
	qb := uf.Query(RelID(W.id[cR1], p1))
	na, nb, bad := 0, 0, 0
	for qa.Next() {
		na++
		if qa.GetRelation(W.id[cR1]) != p0 {
			bad++
		}
	}
	for qb.Next() {
		nb++
		if qb.GetRelation(W.id[cR1]) != p1 {
			bad++
		}
	}
	vcheck("unsafe/each-query-keeps-its-targets", na == count(p0, false) && nb == count(p1, false) && bad == 0)
	f := NewFilter2[vChild, vPos](W.w)
	ta := f.Query(RelIdx(0, p0))
	tb := f.Query(RelIdx(0, p1))
	na, nb, bad = 0, 0, 0
	for ta.Next() {
		na++
		if ta.GetRelation(0) != p0 {
			bad++
		}
	}
	for tb.Next() {
		nb++
		if tb.GetRelation(0) != p1 {
			bad++
		}
	}
	vcheck("typed/each-query-keeps-its-targets", na == count(p0, true) && nb == count(p1, true) && bad == 0)
	vcheck("unlocked", !W.w.IsLocked())
	vreach("end")
}
