//go:build verif

package ecs

// ---- C12: two worlds given the same operations issue the same handles, iterate queries
// in the same order and report the same statistics, for EVERY map iteration order.
// The engine runs the scenario once with the identity order and once with another
// permutation of every ranged map (vmaporder) and compares the digests; natively the
// comparison is repeated vreps() times against Go's randomised map order.

const vDigN = 400

type vDigest struct {
	v [vDigN]uint64
	n int
}

func (d *vDigest) add(x uint64) {
	if d.n < vDigN {
		d.v[d.n] = x
	}
	d.n++
}
func (d *vDigest) ent(e Entity) { d.add(uint64(e.id)<<32 | uint64(e.gen)) }

var vConcreteValues bool

func (W *vWorld) digest(d *vDigest) {
	for i := 0; i < W.n; i++ { // handles issued
		d.ent(W.e[i].h)
	}
	q := NewFilter0(W.w).Query() // iteration order of all entities
	for q.Next() {
		d.ent(q.Entity())
	}
	uq := NewUnsafeFilter(W.w, W.id[cR1]).Query() // iteration order of a relation query
	for uq.Next() {
		d.ent(uq.Entity())
		d.ent(uq.GetRelation(W.id[cR1]))
	}
	st := W.w.Stats()
	d.add(uint64(st.Entities.Used)<<32 | uint64(st.Entities.Recycled))
	d.add(uint64(st.Memory))
	for i := range st.Archetypes {
		a := &st.Archetypes[i]
		d.add(uint64(a.Size)<<32 | uint64(a.Capacity))
		d.add(uint64(a.FreeTables)<<32 | uint64(len(a.Tables)))
		for k := range a.Tables {
			d.add(uint64(a.Tables[k].Size)<<32 | uint64(a.Tables[k].Capacity))
		}
	}
}

func vDetRun(scenario int, order uint32) *vDigest {
	vmaporder(order)
	vMode = 1
	W := vShapeRel(1, 60, true, 0)
	d := &vDigest{}
	firstParent := W.e[0].h
	switch scenario {
	case 0: // a target of both relation columns dies: FreeTable of multi-relation tables
		W.removeEntity(1)
		W.digest(d)
		if W.n < vNE {
			W.create([]int{cR1, cR2}, firstParent, firstParent)
		}
	case 1: // Reset, then tables are recycled for new targets, grown differently, emptied and shrunk
		W.w.Reset()
		W.n = 0
		p0 := W.create([]int{cA}, Entity{}, Entity{})
		p1 := W.create([]int{cA}, Entity{}, Entity{})
		p2 := W.create([]int{cA}, Entity{}, Entity{})
		W.create([]int{cR1, cA}, W.e[p0].h, Entity{})
		W.create([]int{cR1, cA}, W.e[p0].h, Entity{})
		c1 := W.create([]int{cR1, cA}, W.e[p1].h, Entity{})
		c2 := W.create([]int{cR1, cA}, W.e[p2].h, Entity{})
		W.create([]int{cR1, cR2}, W.e[p2].h, W.e[p0].h)
		W.digest(d)
		W.removeEntity(c1)
		W.removeEntity(c2)
		W.w.Shrink()
	case 2: // target death, recycling of the freed table
		W.cacheScenario(7)
	case 4: // three tables of different sizes of one two-relation archetype share the dying target
		W.create([]int{cR1, cR2}, W.e[1].h, firstParent)
		W.create([]int{cR1, cR2}, W.e[1].h, firstParent)
		W.removeEntity(1)
		W.digest(d)
		if W.n < vNE {
			W.create([]int{cR1, cR2}, firstParent, Entity{})
		}
	case 5: // both targets of a two-relation table die, one after the other
		W.removeEntity(1)
		W.digest(d)
		W.removeEntity(0)
		W.digest(d)
		if W.n < vNE {
			W.create([]int{cR1, cR2}, Entity{}, Entity{})
		}
	case 6: // batch removal over several tables, then the freed ids and tables are reused
		W.w.RemoveEntities(NewFilter1[vChild](W.w).Batch(), nil)
		for i := 0; i < W.n; i++ {
			if W.e[i].has[cR1] {
				W.e[i].alive = false
			}
		}
		W.digest(d)
		if W.n+2 <= vNE {
			W.create([]int{cR1, cR2}, firstParent, W.e[1].h)
			W.create([]int{cR1, cA}, W.e[1].h, Entity{})
		}
	case 7: // iteration order of a registered filter across target death and table recycling
		f := NewFilter1[vChild](W.w).Register()
		W.removeEntity(1)
		if W.n < vNE {
			W.create([]int{cR1, cA}, firstParent, Entity{})
		}
		q := f.Query()
		for q.Next() {
			d.ent(q.Entity())
			d.ent(q.GetRelation(0))
		}
		W.w.RemoveEntities(f.Batch(RelIdx(0, firstParent)), func(e Entity) { d.ent(e) })
		for i := 0; i < W.n; i++ {
			if W.e[i].alive && W.e[i].has[cR1] && W.e[i].tgt[0] == firstParent {
				W.e[i].alive = false
			}
		}
	case 8: // observers whose callbacks create entities; one is unregistered: dispatch order of the rest
		var obs [4]*Observer
		for k := 0; k < 4; k++ {
			k := k
			obs[k] = Observe(OnSetComponents).Do(func(e Entity) {
				d.add(uint64(k))
			}).Register(W.w)
		}
		obs[1].Unregister(W.w)
		NewMap1[vPos](W.w).Set(firstParent, &vPos{1, 2})
		obs[0].Unregister(W.w)
		NewMap1[vPos](W.w).Set(firstParent, &vPos{3, 4})
	case 3:
		W.removeEntity(0)
		W.w.Shrink()
		if W.n < vNE {
			W.create([]int{cR1, cA}, W.e[1].h, Entity{})
		}
	}
	W.digest(d)
	vmaporder(0)
	return d
}

func vDeterminism(scenario int) {
	vConcreteValues = true
	vclockbound(3599_000_000_000) // Shrink calls are not cut short by the clock
	ref := vDetRun(scenario, 0)
	reps := vreps()
	order := vconcrete(uint32(vU8("order")) % 24) // permutation number applied to every ranged map
	for r := 0; r < reps; r++ {
		d := vDetRun(scenario, order)
		vcheck("same-digest-length", d.n == ref.n && d.n <= vDigN)
		same := true
		for i := 0; i < vDigN; i++ {
			same = same && d.v[i] == ref.v[i]
		}
		vcheck("same-handles-query-order-and-statistics", same)
	}
	vConcreteValues = false
	vreach("end")
}

func VerifC12_TargetDeath()            { vDeterminism(0) }
func VerifC12_ResetRecycle()           { vDeterminism(1) }
func VerifC12_Recycle()                { vDeterminism(2) }
func VerifC12_ShrinkRecycle()          { vDeterminism(3) }
func VerifC12_SharedTargetDeath()      { vDeterminism(4) }
func VerifC12_SuccessiveTargetDeaths() { vDeterminism(5) }
func VerifC12_BatchRemovalAndReuse()   { vDeterminism(6) }
func VerifC12_RegisteredFilterOrder()  { vDeterminism(7) }
func VerifC12_ObserverDispatchOrder()  { vDeterminism(8) }
