//go:build verif

package ecs

// ---- shapes (built through the real API) and single-operation steps.

// vMode: 0 = valid and invalid calls, 1 = valid calls only (C01/C04), 2 = rejected calls only (C10)
var vMode = 0

// vLocked: the world is locked by an open query; every structural operation must be rejected
var vLocked = false

// vPickMax > 0 narrows every symbolic choice to its first vPickMax alternatives
// (multi-operation histories trade breadth per step for depth)
var vPickMax = 0

func vPick(l string, n int) int {
	if vPickMax > 0 && n > vPickMax {
		n = vPickMax
	}
	return int(vconcrete(uint32(vU8(l)) % uint32(n)))
}

// shape 0: plain archetypes {A} {A,B} {B,T} {A,P}, optional removal (recycled id, swapped row)
func vShapePlain(capacity, pad, removal int) *vWorld {
	W := vNewWorld(capacity, capacity, pad)
	W.create([]int{cA}, Entity{}, Entity{})
	W.create([]int{cA}, Entity{}, Entity{})
	W.create([]int{cA, cB}, Entity{}, Entity{})
	W.create([]int{cA, cB}, Entity{}, Entity{})
	W.create([]int{cB, cT}, Entity{}, Entity{})
	W.create([]int{cA, cP}, Entity{}, Entity{})
	W.standingFilters(false)
	W.create([]int{cA, cP}, Entity{}, Entity{})
	// {A,B,P} is populated: adding B to {A,P} (or removing B again) moves pointer-bearing rows
	// into a destination that already holds rows
	W.create([]int{cA, cB, cP}, Entity{}, Entity{})
	for i := 0; i < W.n; i++ {
		W.havocValues(i)
	}
	switch removal {
	case 1:
		W.removeEntity(0) // first row of {A}: swap
	case 2:
		W.removeEntity(5) // first row of {A,P}: swap of pointer cells
	case 3:
		W.removeEntity(3) // last row of {A,B}: no swap
	}
	return W
}

// shape 1: relations. parents p0,p1 ({A}); children over R1/R2 in several tables;
// one freed table (target removed) and one dead, recycled parent handle.
func vShapeRel(capacity, pad int, withFree bool, emptied int) *vWorld {
	W := vNewWorld(capacity, 1, pad)
	W.relShape = true
	p0 := W.create([]int{cA}, Entity{}, Entity{})
	p1 := W.create([]int{cA}, Entity{}, Entity{})
	h0, h1 := W.e[p0].h, W.e[p1].h
	W.create([]int{cR1, cA}, h0, Entity{})
	W.create([]int{cR1, cA}, h0, Entity{})
	W.create([]int{cR1, cA}, h1, Entity{})
	W.create([]int{cR1, cR2}, h0, h1)
	W.create([]int{cR1, cR2}, h1, Entity{})
	// a two-relation archetype whose relation columns are NOT the first columns (A sorts first)
	W.create([]int{cA, cR1, cR2}, h1, h0)
	W.create([]int{cA, cR1, cR2}, h0, h0)
	if withFree {
		p2 := W.create([]int{cA}, Entity{}, Entity{})
		c := W.create([]int{cR1, cA}, W.e[p2].h, Entity{})
		cb := W.create([]int{cR1, cB}, W.e[p2].h, Entity{}) // archetype {R1,B}: its only table will be a free one
		W.removeEntity(c)
		W.removeEntity(cb)
		W.removeEntity(p2) // frees the (R1->p2) tables; p2's id is recycled next
		// the recycled id becomes a target again: the dead handle p2 and the live p3 share an id
		p3 := W.create([]int{cA}, Entity{}, Entity{})
		W.create([]int{cR1, cA}, W.e[p3].h, Entity{})
	}
	W.standingFilters(true)
	// a populated zero-target table: bulk moves (target death, batch retargeting) then arrive
	// in a destination that already holds rows
	zc := W.create([]int{cR1, cA}, Entity{}, Entity{})
	// a second row in (R1->p0, R2->p1): swap-removes there move the payload column that follows the
	// zero-size relation column
	dup := W.create([]int{cR1, cR2}, h0, h1)
	for i := 0; i < W.n; i++ {
		if W.e[i].alive {
			W.havocValues(i)
		}
	}
	// leave an active but empty relation table behind (its target stays alive)
	switch emptied {
	case 1:
		W.removeEntity(4) // the only child in (R1->p1, A)
	case 2:
		W.removeEntity(6) // the only child in (R1->p1, R2->zero)
	case 3:
		W.removeEntity(5) // both children in (R1->p0, R2->p1)
		W.removeEntity(dup)
	case 4:
		W.removeEntity(zc) // the only child in (R1->zero, A): an emptied table without a target
	}
	return W
}

// ---- operations with their documented effect on the model (DESIGN.md A.1)

// pickTarget: zero, the first two alive entities, every dead tracked handle, and the last alive one.
func (W *vWorld) pickTarget(l string) Entity {
	var cand []Entity
	cand = append(cand, Entity{})
	alive := 0
	last := -1
	for j := 0; j < W.n; j++ {
		if W.e[j].alive {
			if alive < 2 {
				cand = append(cand, W.e[j].h)
			}
			alive++
			last = j
		} else {
			cand = append(cand, W.e[j].h)
		}
	}
	if last >= 0 && alive > 2 {
		cand = append(cand, W.e[last].h)
	}
	return cand[vPick(l, len(cand))]
}
func (W *vWorld) targetOK(t Entity) bool {
	if t.IsZero() {
		return true
	}
	for j := 0; j < W.n; j++ {
		if W.e[j].h == t {
			return W.e[j].alive
		}
	}
	return false
}

func vHasDup(cs []int) bool {
	for i := range cs {
		for j := i + 1; j < len(cs); j++ {
			if cs[i] == cs[j] {
				return true
			}
		}
	}
	return false
}

func (W *vWorld) pickComps(l string) []int {
	c1 := vPick(l+"1", vNC)
	switch vPick(l+"2", 3) {
	case 0:
		return []int{c1}
	case 1:
		return []int{c1, (c1 + 1) % vNC}
	}
	return []int{c1, (c1 + 3) % vNC}
}

// expectReject: the call must panic and leave everything as it was.
func (W *vWorld) expectReject(tag string, f func()) {
	if vMode == 1 {
		return
	}
	vcheck(tag+"/panics", vpanics(f))
	W.checkAll(tag + "/rejected")
	vreach(tag + "/rejected")
}

func (W *vWorld) opNew(tag string) {
	cs := W.pickComps("new.c")
	t0, t1 := Entity{}, Entity{}
	hasR1, hasR2 := false, false
	for _, c := range cs {
		hasR1 = hasR1 || c == cR1
		hasR2 = hasR2 || c == cR2
	}
	if hasR1 {
		t0 = W.pickTarget("new.t0")
	}
	if hasR2 {
		t1 = W.pickTarget("new.t1")
	}
	if W.n >= vNE {
		return
	}
	if (hasR1 || hasR2) && !vLocked && vPick("new.omit-target", 2) == 1 {
		// a relation component without its target: rejected whatever tables exist
		W.expectReject(tag+"/new-without-target", func() { W.u.NewEntityRel(W.ids(cs)) })
		return
	}
	if vLocked || vHasDup(cs) || !W.targetOK(t0) || !W.targetOK(t1) {
		W.expectReject(tag+"/new", func() { W.u.NewEntityRel(W.ids(cs), W.rels(cs, t0, t1)...) })
		return
	}
	var i int
	if vMode == 2 {
		return
	}
	exp := vEnt{alive: true}
	for _, c := range cs {
		exp.has[c] = true
	}
	exp.tgt = [2]Entity{t0, t1}
	W.armNew(exp, vEvents{create: 1, addRel: vB2I(len(W.rels(cs, t0, t1)) > 0)})
	vcheck(tag+"/new/no-panic", !vpanics(func() { i = W.create(cs, t0, t1) }))
	W.disarm(tag + "/new")
	vcheck(tag+"/new/fresh-handle", W.freshHandle(W.e[i].h, i))
	vcheck(tag+"/new/zero-initialised", vpure(func() bool { return W.zeroNew(i, cs) }))
	W.clearModelVals(i, cs)
	W.checkAll(tag + "/new")
	W.havocValues(i)
	vreach(tag + "/new")
}

func (W *vWorld) opAdd(tag string) {
	i := vPick("add.e", W.n)
	cs := W.pickComps("add.c")
	m := &W.e[i]
	t0, t1 := Entity{}, Entity{}
	valid := m.alive && !vHasDup(cs)
	for _, c := range cs {
		valid = valid && !m.has[c]
		if c == cR1 {
			t0 = W.pickTarget("add.t0")
		}
		if c == cR2 {
			t1 = W.pickTarget("add.t1")
		}
	}
	valid = valid && W.targetOK(t0) && W.targetOK(t1) && !vLocked
	call := func() { W.u.AddRel(m.h, W.ids(cs), W.rels(cs, t0, t1)...) }
	if !valid && m.alive && i > 1 && W.targetOK(t0) && W.targetOK(t1) {
		return // "already has" rejections are exercised on the first two entities only
	}
	if !valid {
		W.expectReject(tag+"/add", call)
		return
	}
	if vMode == 2 {
		return
	}
	upd := func(m *vEnt) {
		for _, c := range cs {
			m.has[c] = true
			if c == cR1 {
				m.tgt[0] = t0
			}
			if c == cR2 {
				m.tgt[1] = t1
			}
		}
	}
	W.arm(i, upd, vEvents{add: 1, addRel: vB2I(len(W.rels(cs, t0, t1)) > 0)})
	vcheck(tag+"/add/no-panic", !vpanics(call))
	upd(m)
	W.disarm(tag + "/add")
	vcheck(tag+"/add/zero-initialised", vpure(func() bool { return W.zeroNew(i, cs) }))
	W.clearModelVals(i, cs)
	W.checkAll(tag + "/add")
	vreach(tag + "/add")
}

func (W *vWorld) opRemove(tag string) {
	i := vPick("rem.e", W.n)
	cs := W.pickComps("rem.c")
	m := &W.e[i]
	valid := m.alive && !vHasDup(cs)
	for _, c := range cs {
		valid = valid && m.has[c]
	}
	valid = valid && !vLocked
	call := func() { W.u.Remove(m.h, W.ids(cs)...) }
	if !valid && m.alive && i > 1 {
		return
	}
	if !valid {
		W.expectReject(tag+"/remove", call)
		return
	}
	if vMode == 2 {
		return
	}
	relRemoved := false
	upd := func(m *vEnt) {
		for _, c := range cs {
			m.has[c] = false
			if c == cR1 {
				m.tgt[0] = Entity{}
			}
			if c == cR2 {
				m.tgt[1] = Entity{}
			}
		}
	}
	for _, c := range cs {
		relRemoved = relRemoved || vIsRel(c)
	}
	W.arm(i, upd, vEvents{rem: 1, remRel: vB2I(relRemoved)})
	vcheck(tag+"/remove/no-panic", !vpanics(call))
	upd(m)
	W.disarm(tag + "/remove")
	W.checkAll(tag + "/remove")
	vreach(tag + "/remove")
}

func (W *vWorld) opExchange(tag string) {
	i := vPick("ex.e", W.n)
	ca := vPick("ex.add", vNC)
	cr := vPick("ex.rem", vNC)
	m := &W.e[i]
	t := Entity{}
	if vIsRel(ca) {
		t = W.pickTarget("ex.t")
	}
	valid := m.alive && !m.has[ca] && m.has[cr] && ca != cr && W.targetOK(t) && !vLocked
	call := func() { W.u.Exchange(m.h, W.ids([]int{ca}), W.ids([]int{cr}), W.rels([]int{ca}, t, t)...) }
	if !valid && m.alive && i > 1 && W.targetOK(t) {
		return // has/lacks rejections are exercised on the first two entities only
	}
	if !valid {
		W.expectReject(tag+"/exchange", call)
		return
	}
	if vMode == 2 {
		return
	}
	upd := func(m *vEnt) {
		m.has[ca], m.has[cr] = true, false
		if ca == cR1 {
			m.tgt[0] = t
		}
		if ca == cR2 {
			m.tgt[1] = t
		}
		if cr == cR1 {
			m.tgt[0] = Entity{}
		}
		if cr == cR2 {
			m.tgt[1] = Entity{}
		}
	}
	W.arm(i, upd, vEvents{rem: 1, remRel: vB2I(vIsRel(cr)), add: 1, addRel: vB2I(vIsRel(ca))})
	vcheck(tag+"/exchange/no-panic", !vpanics(call))
	upd(m)
	W.disarm(tag + "/exchange")
	vcheck(tag+"/exchange/zero-initialised", vpure(func() bool { return W.zeroNew(i, []int{ca}) }))
	W.clearModelVals(i, []int{ca})
	W.checkAll(tag + "/exchange")
	vreach(tag + "/exchange")
}

func (W *vWorld) opSetRelations(tag string) {
	i := vPick("sr.e", W.n)
	c := cR1 + vPick("sr.c", 2)
	t := W.pickTarget("sr.t")
	m := &W.e[i]
	valid := m.alive && m.has[c] && W.targetOK(t) && !vLocked
	call := func() { W.u.SetRelations(m.h, RelID(W.id[c], t)) }
	if !valid {
		W.expectReject(tag+"/setrel", call)
		return
	}
	if vMode == 2 {
		return
	}
	upd := func(m *vEnt) { m.tgt[c-cR1] = t }
	changed := vB2I(m.tgt[c-cR1] != t)
	W.arm(i, upd, vEvents{remRel: changed, addRel: changed})
	vcheck(tag+"/setrel/no-panic", !vpanics(call))
	upd(m)
	W.disarm(tag + "/setrel")
	W.checkAll(tag + "/setrel")
	vreach(tag + "/setrel")
}

func (W *vWorld) opRemoveEntity(tag string) {
	i := vPick("re.e", W.n)
	m := &W.e[i]
	call := func() { W.w.RemoveEntity(m.h) }
	if !m.alive || vLocked {
		W.expectReject(tag+"/remove-entity", call)
		return
	}
	if vMode == 2 {
		return
	}
	W.arm(i, func(*vEnt) {}, vEvents{remEnt: 1, remRel: vB2I(m.has[cR1] || m.has[cR2])})
	vcheck(tag+"/remove-entity/no-panic", !vpanics(call))
	W.disarm(tag + "/remove-entity")
	m.alive = false
	W.detach(m.h)
	W.checkAll(tag + "/remove-entity")
	vreach(tag + "/remove-entity")
}

func (W *vWorld) opCopy(tag string) {
	i := vPick("cp.e", W.n)
	if W.n >= vNE {
		return
	}
	m := &W.e[i]
	var h Entity
	call := func() { h = W.w.CopyEntity(m.h) }
	if !m.alive || vLocked {
		W.expectReject(tag+"/copy", call)
		return
	}
	if vMode == 2 {
		return
	}
	W.armNew(*m, vEvents{create: 1, addRel: vB2I(m.has[cR1] || m.has[cR2])})
	vcheck(tag+"/copy/no-panic", !vpanics(call))
	W.disarm(tag + "/copy")
	j := W.n
	W.n++
	W.e[j] = *m
	W.e[j].h = h
	vcheck(tag+"/copy/fresh-handle", W.freshHandle(h, j))
	W.checkAll(tag + "/copy")
	vreach(tag + "/copy")
}

func (W *vWorld) opSet(tag string) {
	i := vPick("set.e", W.n)
	m := &W.e[i]
	mp := NewMap1[vPos](W.w)
	v := vPos{vU32("set.x"), vU32("set.y")}
	call := func() { mp.Set(m.h, &v) }
	if !m.alive {
		W.expectReject(tag+"/set", call)
		return
	}
	if !m.has[cA] {
		return // Set of a missing component is unchecked outside debug builds (C20)
	}
	if vMode == 2 {
		return
	}
	W.arm(i, func(m *vEnt) { m.pos = v }, vEvents{set: 1})
	vcheck(tag+"/set/no-panic", !vpanics(call))
	W.disarm(tag + "/set")
	m.pos = v
	W.checkAll(tag + "/set")
	vreach(tag + "/set")
}

func (W *vWorld) opShrink(tag string) {
	var more bool
	if !vLocked && W.standing[0] != nil && vPick("unregister-first-standing-filter", 2) == 1 {
		W.standing[0].Unregister() // later cache entries keep their ids but move to other slots
		W.standing[0] = nil
		W.nStanding--
	}
	if vLocked {
		W.expectReject(tag+"/shrink", func() { W.w.Shrink() })
		return
	}
	vclockbound(3599_000_000_000) // an unbounded Shrink is limited to one hour internally: assume the call takes less
	vcheck(tag+"/shrink/no-panic", !vpanics(func() { more = W.w.Shrink() }))
	vcheck(tag+"/shrink/done", !more)
	W.checkAll(tag + "/shrink")
	vreach(tag + "/shrink")
}

// ---- the same operations through the typed generic API (value-initialising paths)

func (W *vWorld) opTypedNew(tag string) {
	if W.n >= vNE {
		return
	}
	t := W.pickTarget("tnew.t")
	v := vPos{vU32("tnew.x"), vU32("tnew.y")}
	mp := NewMap2[vChild, vPos](W.w)
	var h Entity
	call := func() { h = mp.NewEntity(&vChild{}, &v, RelIdx(0, t)) }
	if vLocked || !W.targetOK(t) {
		W.expectReject(tag+"/typed-new", call)
		return
	}
	if vMode == 2 {
		return
	}
	exp := vEnt{alive: true, pos: v}
	exp.has[cR1], exp.has[cA] = true, true
	exp.tgt[0] = t
	W.armNew(exp, vEvents{create: 1, addRel: 1})
	vcheck(tag+"/typed-new/no-panic", !vpanics(call))
	W.disarm(tag + "/typed-new")
	i := W.n
	W.n++
	W.e[i] = exp
	W.e[i].h = h
	vcheck(tag+"/typed-new/fresh-handle", W.freshHandle(h, i))
	W.checkAll(tag + "/typed-new")
	vreach(tag + "/typed-new")
}

func (W *vWorld) opTypedAdd(tag string) {
	i := vPick("tadd.e", W.n)
	m := &W.e[i]
	v := vVel{vU32("tadd.v")}
	mp := NewMap2[vVel, vTag](W.w)
	call := func() { mp.Add(m.h, &v, &vTag{}) }
	valid := m.alive && !m.has[cB] && !m.has[cT] && !vLocked
	if !valid {
		W.expectReject(tag+"/typed-add", call)
		return
	}
	if vMode == 2 {
		return
	}
	upd := func(m *vEnt) { m.has[cB], m.has[cT], m.vel = true, true, v }
	W.arm(i, upd, vEvents{add: 1})
	vcheck(tag+"/typed-add/no-panic", !vpanics(call))
	upd(m)
	W.disarm(tag + "/typed-add")
	W.checkAll(tag + "/typed-add")
	vreach(tag + "/typed-add")
}

func (W *vWorld) opTypedExchange(tag string) {
	i := vPick("tex.e", W.n)
	m := &W.e[i]
	v := vVel{vU32("tex.v")}
	ex := NewExchange1[vVel](W.w).Removes(C[vPos]())
	call := func() { ex.Exchange(m.h, &v) }
	valid := m.alive && !m.has[cB] && m.has[cA] && !vLocked
	if !valid {
		W.expectReject(tag+"/typed-exchange", call)
		return
	}
	if vMode == 2 {
		return
	}
	upd := func(m *vEnt) { m.has[cB], m.has[cA], m.vel = true, false, v }
	W.arm(i, upd, vEvents{rem: 1, add: 1})
	vcheck(tag+"/typed-exchange/no-panic", !vpanics(call))
	upd(m)
	W.disarm(tag + "/typed-exchange")
	W.checkAll(tag + "/typed-exchange")
	vreach(tag + "/typed-exchange")
}

func (W *vWorld) opTypedRemove(tag string) {
	i := vPick("trem.e", W.n)
	m := &W.e[i]
	mp := NewMap2[vPos, vChild](W.w)
	call := func() { mp.Remove(m.h) }
	valid := m.alive && m.has[cA] && m.has[cR1] && !vLocked
	if !valid {
		W.expectReject(tag+"/typed-remove", call)
		return
	}
	if vMode == 2 {
		return
	}
	upd := func(m *vEnt) { m.has[cA], m.has[cR1], m.tgt[0] = false, false, Entity{} }
	W.arm(i, upd, vEvents{rem: 1, remRel: 1})
	vcheck(tag+"/typed-remove/no-panic", !vpanics(call))
	upd(m)
	W.disarm(tag + "/typed-remove")
	W.checkAll(tag + "/typed-remove")
	vreach(tag + "/typed-remove")
}

const vNOps = 9

func (W *vWorld) applyOp(op int, tag string) {
	if W.n == 0 && op != 0 && op != 8 && op != 9 && op < 13 {
		return // no tracked entity to operate on (after a Reset step)
	}
	switch op {
	case 0:
		W.opNew(tag)
	case 1:
		W.opAdd(tag)
	case 2:
		W.opRemove(tag)
	case 3:
		W.opExchange(tag)
	case 4:
		W.opSetRelations(tag)
	case 5:
		W.opRemoveEntity(tag)
	case 6:
		W.opCopy(tag)
	case 7:
		W.opSet(tag)
	case 8:
		W.opShrink(tag)
	case 9:
		W.opTypedNew(tag)
	case 10:
		W.opTypedAdd(tag)
	case 11:
		W.opTypedExchange(tag)
	case 12:
		W.opTypedRemove(tag)
	case 13, 14, 15, 16, 17, 18:
		W.opBatch(op-13, tag)
	}
}

// one operation from the plain shape: IDs straddle the first mask-word boundary (pad 60),
// capacity 1 (every table grows), tight slices
func vStepPlain(op int, capacity, pad int) { vStepPlainV(op, capacity, pad, 3) }
func vStepPlainV(op int, capacity, pad int, nv int) {
	W := vShapePlain(capacity, pad, 1+vPick("removal", nv)%4)
	vTighten(W.w)
	if op >= 5 {
		W.checkAll("pre")
	}
	W.applyOp(op, "op")
}

// variants: (free table + recycled parent id, emptied relation table)
var vRelVariants = [6][2]int{{1, 0}, {0, 1}, {1, 2}, {0, 0}, {1, 3}, {0, 4}}

func vStepRel(op int, capacity, pad int) { vStepRelV(op, capacity, pad, 3) }
func vStepRelV(op int, capacity, pad int, nv int) {
	v := vRelVariants[vPick("variant", nv)]
	W := vShapeRel(capacity, pad, v[0] == 1, v[1])
	vTighten(W.w)
	if op >= 5 {
		W.checkAll("pre")
	}
	W.applyOp(op, "op")
}

func vRun(mode int, f func()) {
	vMode = mode
	f()
}

// C01: valid operations (effect on the operated entity, frame for all others, INV)
func VerifC01_PlainNew()          { vRun(1, func() { vStepPlain(0, 1, 60) }) }
func VerifC01_PlainAdd()          { vRun(1, func() { vStepPlain(1, 1, 60) }) }
func VerifC01_PlainRemove()       { vRun(1, func() { vStepPlain(2, 1, 60) }) }
func VerifC01_PlainExchange()     { vRun(1, func() { vStepPlain(3, 1, 60) }) }
func VerifC01_PlainRemoveEntity() { vRun(1, func() { vStepPlain(5, 1, 60) }) }
func VerifC01_PlainCopy()         { vRun(1, func() { vStepPlain(6, 1, 60) }) }
func VerifC01_PlainSet()          { vRun(1, func() { vStepPlain(7, 1, 60) }) }
func VerifC01_RelNew()            { vRun(1, func() { vStepRel(0, 1, 60) }) }
func VerifC01_RelAdd()            { vRun(1, func() { vStepRel(1, 1, 60) }) }
func VerifC01_RelRemove()         { vRun(1, func() { vStepRel(2, 1, 60) }) }
func VerifC01_RelExchange()       { vRun(1, func() { vStepRel(3, 1, 60) }) }
func VerifC01_RelCopy()           { vRun(1, func() { vStepRel(6, 1, 60) }) }

func VerifC01_PlainTypedAdd()      { vRun(1, func() { vStepPlain(10, 1, 60) }) }
func VerifC01_PlainTypedExchange() { vRun(1, func() { vStepPlain(11, 1, 60) }) }
func VerifC01_RelTypedNew()        { vRun(1, func() { vStepRel(9, 1, 60) }) }
func VerifC01_RelTypedRemove()     { vRun(1, func() { vStepRel(12, 1, 60) }) }

// C04: relation targets
func VerifC04_RelSetRelations() { vRun(1, func() { vStepRel(4, 1, 60) }) }
func VerifC04_RelRemoveEntity() { vRun(1, func() { vStepRel(5, 1, 60) }) }

// C15: Shrink is invisible
func VerifC15_PlainShrink() { vRun(1, func() { vStepPlain(8, 2, 60) }) }
func VerifC15_RelShrink()   { vRun(1, func() { vStepRelV(8, 2, 60, 6) }) }

// C10: every rejected call panics and leaves the world unchanged
func VerifC10_PlainNew()          { vRun(2, func() { vStepPlain(0, 1, 60) }) }
func VerifC10_PlainAdd()          { vRun(2, func() { vStepPlain(1, 1, 60) }) }
func VerifC10_PlainRemove()       { vRun(2, func() { vStepPlain(2, 1, 60) }) }
func VerifC10_PlainExchange()     { vRun(2, func() { vStepPlain(3, 1, 60) }) }
func VerifC10_PlainRemoveEntity() { vRun(2, func() { vStepPlain(5, 1, 60) }) }
func VerifC10_PlainCopy()         { vRun(2, func() { vStepPlain(6, 1, 60) }) }
func VerifC10_PlainSet()          { vRun(2, func() { vStepPlain(7, 1, 60) }) }
func VerifC10_RelNew()            { vRun(2, func() { vStepRel(0, 1, 60) }) }
func VerifC10_RelAdd()            { vRun(2, func() { vStepRel(1, 1, 60) }) }
func VerifC10_RelRemove()         { vRun(2, func() { vStepRel(2, 1, 60) }) }
func VerifC10_RelExchange()       { vRun(2, func() { vStepRel(3, 1, 60) }) }
func VerifC10_RelSetRelations()   { vRun(2, func() { vStepRel(4, 1, 60) }) }
func VerifC10_RelRemoveEntity()   { vRun(2, func() { vStepRel(5, 1, 60) }) }
func VerifC10_RelCopy()           { vRun(2, func() { vStepRel(6, 1, 60) }) }
func VerifC10_PlainTypedAdd()     { vRun(2, func() { vStepPlain(10, 1, 60) }) }
func VerifC10_RelTypedNew()       { vRun(2, func() { vStepRel(9, 1, 60) }) }
func VerifC10_RelTypedRemove()    { vRun(2, func() { vStepRel(12, 1, 60) }) }

// ---- multi-operation histories (thorough tier): every sequence of operations, each with its
// choices narrowed to the first vPickMax alternatives, model and invariants checked after each
func vHistory(rel bool, steps, pickMax int) {
	vMode = 0
	var W *vWorld
	// pad 61: IDs 61..66 straddle the first word boundary like the quick placement, but the
	// thorough tier does not multiply the histories by the other placements
	if rel {
		W = vShapeRel(1, 61, true, 0)
	} else {
		W = vShapePlain(1, 61, 1)
	}
	vTighten(W.w)
	vPickMax = pickMax
	for k := 0; k < steps; k++ {
		W.applyOp(vPickOp(steps), "step")
	}
	vPickMax = 0
}

// two-step histories choose among all 13 operations, three-step histories among the first 6
// (Copy, Set, Shrink and the typed variants appear in the two-step histories)
func vPickOp(steps int) int {
	save := vPickMax
	vPickMax = 0
	op := 0
	if steps <= 2 {
		op = vPick("op", 19) // 13 single-entity operations / Shrink, 5 batch operations, Reset
	} else {
		op = vPick("op", 6) // New, Add, Remove, Exchange, SetRelations, RemoveEntity
	}
	vPickMax = save
	return op
}

// quick tier: every pair of the 19 operations with the choices narrowed to 2 alternatives
func VerifC01_History2PlainNarrow() { vHistory(false, 2, 2) }
func VerifC04_History2RelNarrow()   { vHistory(true, 2, 2) }

func VerifC01T_History2Plain() { vNoMul = true; vHistory(false, 2, 3) }
func VerifC04T_History2Rel()   { vNoMul = true; vHistory(true, 2, 3) }
func VerifC01T_History3Plain() { vNoMul = true; vHistory(false, 3, 2) }
func VerifC04T_History3Rel()   { vNoMul = true; vHistory(true, 3, 2) }

// other ID placements and capacities (thorough)
func VerifC01T_PlainAddPad0()        { vNoMul = true; vRun(1, func() { vStepPlainV(1, 2, 0, 4) }) }
func VerifC01T_PlainRemovePad124()   { vNoMul = true; vRun(1, func() { vStepPlainV(2, 1, 124, 4) }) }
func VerifC01T_PlainExchangePad250() { vNoMul = true; vRun(1, func() { vStepPlainV(3, 2, 250, 4) }) }
func VerifC01T_RelAddPad250()        { vNoMul = true; vRun(1, func() { vStepRelV(1, 2, 250, 5) }) }
func VerifC04T_RelRemoveEntityAll()  { vNoMul = true; vRun(1, func() { vStepRelV(5, 2, 190, 5) }) }
func VerifC04T_RelSetRelationsAll()  { vNoMul = true; vRun(1, func() { vStepRelV(4, 1, 126, 5) }) }

// C02: removal through a stale handle (never-reused dead id, recycled id) is rejected and
// leaves liveness and counts of everything else exact
func VerifC02_RemoveEntityStaleHandles() { vRun(0, func() { vStepRel(5, 1, 60) }) }
func VerifC02_CopyStaleHandles()         { vRun(0, func() { vStepRel(6, 1, 60) }) }

// ---- C04 scenario: a child changes archetype without naming its relation (the new table is
// created from the old table's relation list), the common target dies (both tables freed),
// new targets recycle both tables, then one new target dies and a component is added.
func VerifC04_RecycleAfterArchetypeMove() {
	vMode = 1
	W := vShapeRel(1, 60, false, 0)
	vTighten(W.w)
	p0 := W.e[0].h
	// child 2 has (R1->p0, A): give it B
	W.u.Add(W.e[2].h, W.id[cB])
	W.e[2].has[cB] = true
	W.e[2].vel = vVel{}
	W.checkAll("moved")
	W.removeEntity(0) // p0 dies: every table with target p0 is emptied and freed
	_ = p0
	W.checkAll("target-dead")
	a := W.create([]int{cA}, Entity{}, Entity{})
	b := W.create([]int{cA}, Entity{}, Entity{})
	order := vPick("order", 2)
	if order == 0 {
		W.create([]int{cR1, cA}, W.e[a].h, Entity{})
		W.create([]int{cR1, cA, cB}, W.e[b].h, Entity{})
	} else {
		W.create([]int{cR1, cA, cB}, W.e[b].h, Entity{})
		W.create([]int{cR1, cA}, W.e[a].h, Entity{})
	}
	for i := a; i < W.n; i++ {
		W.havocValues(i)
	}
	W.checkAll("recycled")
	switch vPick("then", 3) {
	case 0:
		W.removeEntity(a)
	case 1:
		W.removeEntity(b)
	case 2:
		last := W.n - 1
		W.u.Add(W.e[last].h, W.id[cT])
		W.e[last].has[cT] = true
	}
	W.checkAll("after")
	vreach("end")
}

// ---- batch operations, Reset and filter registration as history steps (fixed filters; the
// model is updated by the per-entity effect on every entity the filter's predicate selects)
func (W *vWorld) opBatch(kind int, tag string) {
	if vLocked {
		return
	}
	hasRel := W.id[cR1].id != W.id[cA].id && W.n > 0 && W.relShape
	switch kind {
	case 0: // remove every entity that has A and B
		vcheck(tag+"/batch-remove-entities/no-panic", !vpanics(func() { W.w.RemoveEntities(NewFilter2[vPos, vVel](W.w).Batch(), nil) }))
		var gone [vNE]bool
		for j := 0; j < W.n; j++ {
			if W.e[j].alive && W.e[j].has[cA] && W.e[j].has[cB] {
				W.e[j].alive = false
				gone[j] = true
			}
		}
		for j := 0; j < W.n; j++ {
			if gone[j] {
				W.detach(W.e[j].h)
			}
		}
	case 1: // add B to everything with A and without B (pointer rows move into populated tables)
		vcheck(tag+"/batch-add/no-panic", !vpanics(func() {
			NewMap1[vVel](W.w).AddBatch(NewFilter1[vPos](W.w).Without(C[vVel]()).Batch(), &vVel{77})
		}))
		for j := 0; j < W.n; j++ {
			if W.e[j].alive && W.e[j].has[cA] && !W.e[j].has[cB] {
				W.e[j].has[cB] = true
				W.e[j].vel = vVel{77}
			}
		}
	case 2: // remove B from everything that has it, through a registered filter
		f := NewFilter1[vVel](W.w).Register()
		vcheck(tag+"/batch-remove/no-panic", !vpanics(func() { NewMap1[vVel](W.w).RemoveBatch(f.Batch(), nil) }))
		f.Unregister()
		for j := 0; j < W.n; j++ {
			if W.e[j].alive && W.e[j].has[cB] {
				W.e[j].has[cB] = false
			}
		}
	case 3: // retarget R1 of every child to the first parent (relation shape) — whole tables move
		if !hasRel || !W.e[0].alive {
			return
		}
		t := W.e[0].h
		vcheck(tag+"/batch-set-relations/no-panic", !vpanics(func() {
			NewMap1[vChild](W.w).SetRelationsBatch(NewFilter1[vChild](W.w).Batch(), nil, RelIdx(0, t))
		}))
		for j := 0; j < W.n; j++ {
			if W.e[j].alive && W.e[j].has[cR1] {
				W.e[j].tgt[0] = t
			}
		}
	case 4: // remove the children of the first parent through a registered filter with a per-call target
		if !hasRel || !W.e[0].alive {
			return
		}
		t := W.e[0].h
		f := NewFilter1[vChild](W.w).Register()
		vcheck(tag+"/batch-remove-children/no-panic", !vpanics(func() { W.w.RemoveEntities(f.Batch(RelIdx(0, t)), nil) }))
		f.Unregister()
		var gone [vNE]bool
		for j := 0; j < W.n; j++ {
			if W.e[j].alive && W.e[j].has[cR1] && W.e[j].tgt[0] == t {
				W.e[j].alive = false
				gone[j] = true
			}
		}
		for j := 0; j < W.n; j++ {
			if gone[j] {
				W.detach(W.e[j].h)
			}
		}
	case 5: // Reset: nothing is alive; the standing filters are unregistered with everything else
		vcheck(tag+"/reset/no-panic", !vpanics(func() { W.w.Reset() }))
		okDead := true
		for j := 0; j < W.n; j++ {
			okDead = okDead && !W.w.Alive(W.e[j].h)
		}
		vcheck(tag+"/reset/no-handle-alive", okDead)
		W.n = 0 // handles issued before the Reset may be issued again
		W.nStanding = 0
		W.standing[0] = nil
	}
	W.checkAll(tag + "/batch")
	vreach(tag + "/batch")
}

// ---- the same hazard with Shrink as the freeing step: the only child of (R1->p1, A) gains B
// (its new table is created from the old table's relation list), Shrink frees the emptied
// table while p1 lives on, another target recycles it, then the moved child is operated on.
func VerifC15_RecycleAfterShrinkFreedTable() {
	vMode = 1
	W := vShapeRel(1, 60, false, 0)
	vTighten(W.w)
	p1 := W.e[1].h
	c := 4 // the only child in (R1->p1, A)
	W.u.Add(W.e[c].h, W.id[cB])
	W.e[c].has[cB] = true
	W.e[c].vel = vVel{}
	W.checkAll("moved")
	vclockbound(3599_000_000_000)
	W.w.Shrink()
	W.checkAll("shrunk")
	a := W.create([]int{cA}, Entity{}, Entity{})
	W.create([]int{cR1, cA}, W.e[a].h, Entity{}) // recycles the freed (R1->p1, A) table for another target
	for i := a; i < W.n; i++ {
		W.havocValues(i)
	}
	W.checkAll("recycled")
	switch vPick("then", 3) {
	case 0: // the moved child changes archetype again: its target must still be p1
		W.u.Add(W.e[c].h, W.id[cT])
		W.e[c].has[cT] = true
	case 1:
		W.u.Remove(W.e[c].h, W.id[cB])
		W.e[c].has[cB] = false
	case 2:
		W.removeEntity(a)
	}
	vcheck("moved-child-keeps-its-target", W.u.GetRelation(W.e[c].h, W.id[cR1]) == p1)
	W.checkAll("after")
	vreach("end")
}
