//go:build verif

package ecs

import "unsafe"

// ---- C02-H1: entity pool, one inductive step from an arbitrary valid pool.
//
// Ghost per slot i: alive[i]; rank[i] (position on the free chain, head = available-1);
// maxGen[i] = highest generation ever issued for id i (issued[i] says whether any was).
// I-pool: reserved slots are (i, MaxUint32); alive => entities[i].id == i && gen == maxGen;
// free => gen == maxGen+1 (the generation the next incarnation will carry), chain threaded via .id.

const vPN = 6 // pool slots incl. the 2 reserved ones

type vPoolGhost struct {
	alive  [vPN]bool
	rank   [vPN]int16
	maxGen [vPN]uint32
	issued [vPN]bool
}

func invPool(p *entityPool, g *vPoolGhost, n int) bool {
	ok := len(p.entities) == n && int(p.reserved) == reservedEntities && int(p.available) <= n-reservedEntities
	ok = ok && p.pointer == unsafe.Pointer(&p.entities[0])
	cnt := 0
	for i := 0; i < n; i++ {
		e := p.entities[i]
		if i < reservedEntities {
			ok = ok && e.id == entityID(i) && e.gen == ^uint32(0) && !g.alive[i] && g.rank[i] < 0
			continue
		}
		isFree := !g.alive[i]
		ok = ok && g.issued[i] // every non-reserved slot was issued at least once
		if g.alive[i] {
			ok = ok && e.id == entityID(i) && e.gen == g.maxGen[i] && g.rank[i] < 0
		} else {
			cnt++
			ok = ok && e.gen == g.maxGen[i]+1 && g.maxGen[i] < ^uint32(0)-1
			ok = ok && g.rank[i] >= 0 && g.rank[i] < int16(p.available)
			if g.rank[i] > 0 {
				nx := e.id
				ok = ok && int(nx) < n && int(nx) >= reservedEntities
				for j := reservedEntities; j < n; j++ {
					if nx == entityID(j) {
						ok = ok && !g.alive[j] && g.rank[j] == g.rank[i]-1
					}
				}
			}
			for j := i + 1; j < n; j++ {
				ok = ok && !(isFree && !g.alive[j] && g.rank[j] == g.rank[i])
			}
		}
		if p.available > 0 && p.next == entityID(i) {
			ok = ok && !g.alive[i] && g.rank[i] == int16(p.available)-1
		}
	}
	ok = ok && (p.available == 0 || (int(p.next) < n && int(p.next) >= reservedEntities))
	ok = ok && cnt == int(p.available)
	return ok
}

func vArbPool(n int) (*entityPool, *vPoolGhost) {
	p := newEntityPool(uint32(n), reservedEntities)
	for len(p.entities) < n {
		p.getNew()
	}
	// tight capacity: the next getNew must reallocate (stale pointer would show)
	p.entities = p.entities[:n:n]
	p.pointer = unsafe.Pointer(&p.entities[0])
	g := &vPoolGhost{}
	p.next = entityID(vU32("next"))
	p.available = vU32("available")
	for i := 0; i < n; i++ {
		g.rank[i] = -1
		if i < reservedEntities {
			continue
		}
		p.entities[i] = Entity{entityID(vU32("id")), vU32("gen")}
		g.alive[i] = vBool("alive")
		g.rank[i] = int16(vU16("rank"))
		g.maxGen[i] = vU32("maxgen")
		g.issued[i] = true
	}
	vassume(vpure(func() bool { return invPool(&p, g, n) }))
	return &p, g
}

// aliveSpec: Alive(h) must hold exactly for the handles the ghost says are alive.
func vAliveSpec(p *entityPool, g *vPoolGhost, h Entity, n int) bool {
	r := false
	for i := reservedEntities; i < n; i++ {
		if h.id == entityID(i) {
			r = g.alive[i] && h.gen == p.entities[i].gen
		}
	}
	return r
}

func vPoolGet(n int) {
	p, g := vArbPool(n)
	h := Entity{entityID(vU32("h.id")), vU32("h.gen")} // an arbitrary previously issued handle
	vassume(int(h.id) >= reservedEntities && int(h.id) < n)
	hIssued := vpure(func() bool {
		r := false
		for i := reservedEntities; i < n; i++ {
			if h.id == entityID(i) {
				r = g.issued[i] && h.gen <= g.maxGen[i]
			}
		}
		return r
	})
	vassume(hIssued)
	hAliveBefore := p.Alive(h)
	vcheck("alive-exact-before", hAliveBefore == vpure(func() bool { return vAliveSpec(p, g, h, n) }))
	oldAvail, oldLen := p.available, len(p.entities)
	e := p.Get()
	vcheck("fresh-vs-issued", e != h)
	vcheck("new-alive", p.Alive(e))
	vcheck("old-liveness-unchanged", p.Alive(h) == hAliveBefore)
	if oldAvail > 0 {
		vcheck("recycled-id-was-free", int(e.id) < n && int(e.id) >= reservedEntities && !g.alive[e.id])
		vcheck("recycled-gen-newer", int(e.id) < n && e.gen == g.maxGen[e.id]+1)
		vcheck("avail-dec", p.available == oldAvail-1 && len(p.entities) == oldLen)
		vcheck("len", p.Len() == oldLen-reservedEntities-int(oldAvail)+1)
		if int(e.id) < n {
			g.alive[e.id] = true
			g.rank[e.id] = -1
			g.maxGen[e.id] = e.gen
		}
		vcheck("inv-after", vpure(func() bool { return invPool(p, g, n) }))
		vreach("recycled")
	} else {
		vcheck("fresh-id", int(e.id) == oldLen && e.gen == 0 && len(p.entities) == oldLen+1)
		vcheck("pointer-updated", p.pointer == unsafe.Pointer(&p.entities[0]))
		vcheck("len", p.Len() == oldLen-reservedEntities+1)
		vreach("fresh")
	}
}

func vPoolRecycle(n int) {
	p, g := vArbPool(n)
	e := Entity{entityID(vU32("e.id")), vU32("e.gen")}
	vassume(int(e.id) >= reservedEntities && int(e.id) < n)
	vassume(p.Alive(e) && g.alive[e.id])
	vassume(e.gen < ^uint32(0)-3) // stated bound: generations do not wrap (2^32 recycles of one id)
	h := Entity{entityID(vU32("h.id")), vU32("h.gen")}
	vassume(int(h.id) >= reservedEntities && int(h.id) < n && h != e)
	hAliveBefore := p.Alive(h)
	oldAvail, oldLen := p.available, p.Len()
	p.Recycle(e)
	vcheck("dead-after", !p.Alive(e))
	vcheck("others-unchanged", p.Alive(h) == hAliveBefore || (h.id == e.id && h.gen == e.gen+1))
	vcheck("avail-inc", p.available == oldAvail+1 && p.Len() == oldLen-1)
	g.alive[e.id] = false
	g.rank[e.id] = int16(oldAvail)
	vcheck("inv-after", vpure(func() bool { return invPool(p, g, n) }))
	// the next Get re-issues the id with a newer generation
	e2 := p.Get()
	vcheck("reissue-differs", e2 != e && e2.id == e.id && e2.gen == e.gen+1)
	vcheck("old-handle-stays-dead", !p.Alive(e))
	vreach("end")
}

func vPoolReservedRecyclePanics() {
	p, _ := vArbPool(4)
	e := Entity{entityID(vU32("e.id")), vU32("e.gen")}
	vassume(int(e.id) < reservedEntities)
	old0, old1 := p.entities[0], p.entities[1]
	oldAvail := p.available
	vcheck("panics", vpanics(func() { p.Recycle(e) }))
	vcheck("no-effect", p.entities[0] == old0 && p.entities[1] == old1 && p.available == oldAvail)
	vreach("end")
}

func VerifC02_PoolGet4()     { vPoolGet(4) }
func VerifC02_PoolGet6()     { vPoolGet(6) }
func VerifC02_PoolRecycle4() { vPoolRecycle(4) }
func VerifC02_PoolRecycle6() { vPoolRecycle(6) }
func VerifC02_PoolReserved() { vPoolReservedRecyclePanics() }
