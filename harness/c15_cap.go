//go:build verif

package ecs

// ---- C15-H2: capacity arithmetic over all uint32.

// capPow2 is the least power of two >= x for 1 <= x <= 2^31.
func VerifC15_CapPow2() {
	x := vU32("x")
	vassume(x >= 1 && x <= 1<<31)
	c := capPow2(x)
	vcheck("ge", c >= x)
	vcheck("pow2", c != 0 && c&(c-1) == 0)
	vcheck("least", c == 1 || c/2 < x)
	vcheck("zero", capPow2(0) == 1)
	vreach("end")
}

// One table.Shrink step on the header arithmetic: uses the real CanShrink/Shrink
// decision with symbolic len/cap/minCapacity (the reallocation itself is C01/C11).
func VerifC15_ShrinkBounds() {
	ln, cp, minCap := vU32("len"), vU32("cap"), vU32("min")
	vassume(ln <= cp && cp <= 1<<31 && minCap >= 1 && minCap <= 1<<31)
	t := table{len: ln, cap: cp}
	can := t.CanShrink(minCap)
	target := capPow2(ln)
	if target < minCap {
		target = minCap
	}
	vcheck("can-iff", can == (cp > target))
	vcheck("target-holds-rows", target >= ln)
	// after a shrink the capacity is the target: size <= cap <= max(min, capPow2(size))
	if can {
		vcheck("bound", target >= ln && (target == minCap || target == capPow2(ln)))
	}
	vreach("end")
}

// Extend: growth arithmetic keeps len+by <= cap for all sizes that fit.
func VerifC15_ExtendBounds() {
	ln, cp, by := vU32("len"), vU32("cap"), vU32("by")
	vassume(ln <= cp && cp <= 1<<30 && by <= 1<<30)
	required := ln + by
	if cp >= required {
		vreach("fits")
		return
	}
	nc := capPow2(required)
	vcheck("grown-holds", nc >= required && nc > cp)
	vreach("grows")
}
