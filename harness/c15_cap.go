//go:build verif

package ecs

import "time"

// ---- C15-H2: capacity arithmetic over all uint32.

// capPow2 is the least power of two >= x for 1 <= x <= 2^31.
func VerifC15_CapPow2() {
	x := vU32("x")
	vassume(x >= 1 && x <= 1<<31)
	c := capPow2(x)
	vcheck("ge", c >= x)
	vcheck("pow2", c != 0 && c&(c-1) == 0)
	vcheck("least", c == 1 || c/2 < x)
	vcheck("zero", capPow2(0) == 1)
	vreach("end")
}

// One table.Shrink step on the header arithmetic: uses the real CanShrink/Shrink
// decision with symbolic len/cap/minCapacity (the reallocation itself is C01/C11).
func VerifC15_ShrinkBounds() {
	ln, cp, minCap := vU32("len"), vU32("cap"), vU32("min")
	vassume(ln <= cp && cp <= 1<<31 && minCap >= 1 && minCap <= 1<<31)
	t := table{len: ln, cap: cp}
	can := t.CanShrink(minCap)
	target := capPow2(ln)
	if target < minCap {
		target = minCap
	}
	vcheck("can-iff", can == (cp > target))
	vcheck("target-holds-rows", target >= ln)
	// after a shrink the capacity is the target: size <= cap <= max(min, capPow2(size))
	if can {
		vcheck("bound", target >= ln && (target == minCap || target == capPow2(ln)))
	}
	vreach("end")
}

// Extend: growth arithmetic keeps len+by <= cap for all sizes that fit.
func VerifC15_ExtendBounds() {
	ln, cp, by := vU32("len"), vU32("cap"), vU32("by")
	vassume(ln <= cp && cp <= 1<<30 && by <= 1<<30)
	required := ln + by
	if cp >= required {
		vreach("fits")
		return
	}
	nc := capPow2(required)
	vcheck("grown-holds", nc >= required && nc > cp)
	vreach("grows")
}

// ---- time-bounded Shrink with an arbitrary (symbolic, non-decreasing) clock and an arbitrary
// time limit: every intermediate world is valid and equal to the model (Shrink is invisible),
// the return value says exactly whether work remains, repeated calls terminate, and the end
// state is the one an unbounded Shrink reaches (nothing left to shrink).
func vShrinkFootprint(w *World) (capSum int, active int) {
	for i := range w.storage.tables {
		t := &w.storage.tables[i]
		capSum += int(t.cap)
		if t.HasRelations() && !t.isFree {
			active++
		}
	}
	return
}

func vIncrementalShrink(kind int) {
	vMode = 1
	var W *vWorld
	if kind == 0 {
		W = vShapePlain(1, 60, 1)
	} else {
		v := vRelVariants[[]int{1, 2, 5}[vPick("variant", 3)]] // variants with an emptied relation table
		W = vShapeRel(1, 60, v[0] == 1, v[1])
	}
	vTighten(W.w)
	limit := vU64("limit")
	vassume(limit < 1_000_000_000_000) // up to 1000 s; time.Duration is signed
	const maxCalls = 14
	more := true
	calls := 0
	for calls < maxCalls && more {
		cap0, act0 := vShrinkFootprint(W.w)
		vcheck("bounded/no-panic", !vpanics(func() { more = W.w.Shrink(time.Duration(limit)) }))
		calls++
		cap1, act1 := vShrinkFootprint(W.w)
		W.checkAll("bounded")
		vcheck("bounded/never-grows", cap1 <= cap0 && act1 <= act0)
		if calls > 1 {
			// the previous call announced remaining work: this call must have found some
			vcheck("bounded/announced-work-exists", cap1 < cap0 || act1 < act0)
		}
	}
	vcheck("bounded/terminates", !more)
	capA, actA := vShrinkFootprint(W.w)
	vclockbound(3599_000_000_000)
	var again bool
	vcheck("final/no-panic", !vpanics(func() { again = W.w.Shrink() }))
	capB, actB := vShrinkFootprint(W.w)
	vcheck("final/nothing-was-left", !again && capA == capB && actA == actB)
	W.checkAll("final")
	vreach("end")
}

func VerifC15_IncrementalShrinkPlain() { vIncrementalShrink(0) }
func VerifC15_IncrementalShrinkRel()   { vIncrementalShrink(1) }
