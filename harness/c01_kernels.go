//go:build verif

package ecs

// ---- small data-structure kernels with symbolic contents (inductive steps)

// tableIDs: list + inverse map. Remove of an arbitrary id from an arbitrary valid list.
func VerifC04_TableIDsRemove() {
	n := 1 + vPick("n", 4)
	var ids [5]tableID
	t := newTableIDs()
	for i := 0; i < n; i++ {
		ids[i] = tableID(vU32("id"))
		for j := 0; j < i; j++ {
			vassume(ids[j] != ids[i])
		}
		t.Append(ids[i])
	}
	x := tableID(vU32("x"))
	present := false
	for i := 0; i < n; i++ {
		if ids[i] == x {
			present = true
		}
	}
	removed := t.Remove(x)
	vcheck("removed-iff-present", removed == present)
	wantLen := n
	if present {
		wantLen = n - 1
	}
	vcheck("length", len(t.tables) == wantLen && len(t.indices) == wantLen)
	ok := true
	for i := 0; i < n; i++ { // every other id still present exactly once with a consistent index
		cnt := 0
		for k := range t.tables {
			if t.tables[k] == ids[i] {
				cnt++
				idx, found := t.indices[ids[i]]
				ok = ok && found && int(idx) == k
			}
		}
		if ids[i] == x {
			ok = ok && cnt == 0
		} else {
			ok = ok && cnt == 1
		}
	}
	vcheck("inverse-map-consistent", ok)
	vreach("end")
}

// idMap: Set grows in chunks and keeps old entries; Get returns what was set.
// First index arbitrary, second index at a chunk-relative offset of the first.
func VerifC18_IDMapSetGet()  { vIDMapSetGet(36) }
func VerifC18T_IDMapSetGet() { vNoMul = true; vIDMapSetGet(maskTotalBits) }

func vIDMapSetGet(maxA int) {
	m := newIDMap()
	a := vU8("a")
	vassume(int(a) < maxA)
	deltas := [...]int{-17, -16, -1, 0, 1, 15, 16, 17, 33}
	bi := int(a) + deltas[vPick("delta", len(deltas))]
	vassume(bi >= 0 && bi < maskTotalBits)
	b := uint8(bi)
	va, vb := nodeID(vU32("va")), nodeID(vU32("vb"))
	m.Set(a, va)
	ga, oka := m.Get(a)
	vcheck("get-after-set", oka && ga == va)
	m.Set(b, vb)
	gb, okb := m.Get(b)
	ga2, oka2 := m.Get(a)
	vcheck("second-set", okb && gb == vb)
	vcheck("first-entry-kept-across-growth", oka2 && (a == b || ga2 == va))
	ok := vpure(func() bool {
		r := true
		for k := 0; k < len(m.data); k++ {
			r = r && m.used.Get(uint8(k)) == (k == int(a) || k == int(b))
		}
		return r
	})
	vcheck("unset-indices-absent", ok)
	vcheck("capacity-covers-index", len(m.data) > int(a) && len(m.data) > int(b) && len(m.data)%idMapChunkSize == 0)
	vreach("end")
}

// intPool (cache and observer ids): fresh ids are sequential, recycled ids come back LIFO,
// an id is never handed out twice while in use
func VerifC05_IntPool()  { vIntPool(4) }
func VerifC05T_IntPool() { vNoMul = true; vIntPool(5) }

func vIntPool(steps int) {
	p := newIntPool[cacheID](2)
	var inUse [6]bool
	ok := true
	for step := 0; step < steps; step++ {
		if vPick("action", 2) == 0 {
			id := p.Get()
			ok = ok && int(id) < 6 && !inUse[id]
			if int(id) < 6 {
				inUse[id] = true
			}
		} else {
			k := vPick("which", 6)
			if inUse[k] {
				p.Recycle(cacheID(k))
				inUse[k] = false
			}
		}
	}
	vcheck("ids-unique-while-in-use", ok)
	n := 0
	for k := range inUse {
		if inUse[k] {
			n++
		}
	}
	vcheck("accounting", len(p.pool)-int(p.available) == n)
	p.Reset()
	vcheck("reset-restarts-at-zero", p.Get() == 0 && p.Get() == 1)
	vreach("end")
}

// pagedSlice: pointer-stable pages; Get/Set address the element that was added
func VerifC01_PagedSlice() {
	p := newPagedSlice[uint32](2)
	n := 1 + vPick("n", 5)
	var vals [6]uint32
	var ptrs [6]*uint32
	for i := 0; i < n; i++ {
		vals[i] = vU32("v")
		p.Add(vals[i])
		ptrs[i] = p.Get(int32(i))
	}
	i := int32(vPick("i", n))
	vcheck("len", int(p.Len()) == n)
	vcheck("get", *p.Get(i) == vals[i])
	ok := true
	for k := 0; k < n; k++ { // earlier pointers stay valid after later Adds
		ok = ok && ptrs[k] == p.Get(int32(k)) && *ptrs[k] == vals[k]
	}
	vcheck("pointers-stable", ok)
	nv := vU32("nv")
	p.Set(i, nv)
	vcheck("set", *p.Get(i) == nv && *ptrs[i] == nv)
	vreach("end")
}
