//go:build verif

package ecs

// Properties overlap: a statement such as C01 ("... their batch forms, reset, shrink")
// is also decided by harness families written under another property's name. vcheck
// selects harnesses by name prefix, so each family is listed here under every property
// whose statement it bears on. The functions only forward; labels stay the same.

// C01 component store: batch forms, target death (bulk moves), Reset, Shrink
func VerifC01_RelRemoveEntity()        { VerifC04_RelRemoveEntity() }
func VerifC01_RelSetRelations()        { VerifC04_RelSetRelations() }
func VerifC01_BatchAddRel()            { VerifC06_AddRel() }
func VerifC01_BatchExchangeRelation()  { VerifC06_ExchangeRelation() }
func VerifC01_BatchRemoveRelation()    { VerifC06_RemoveRelation() }
func VerifC01_BatchSetRelations()      { VerifC06_SetRelations() }
func VerifC01_BatchRemoveEntitiesRel() { VerifC06_RemoveEntitiesRelConcrete() }
func VerifC01_BatchNewRel()            { VerifC06_NewRel() }
func VerifC01_ShrinkRel()              { VerifC15_RelShrink() }
func VerifC01_ResetRel()               { VerifC16_WorldResetRel() }
func VerifC01T_BatchAddPlain()         { vNoMul = true; VerifC06_AddPlain() }
func VerifC01T_BatchExchangePlain()    { vNoMul = true; VerifC06_ExchangePlain() }
func VerifC01T_BatchRemovePlain()      { vNoMul = true; VerifC06_RemovePlain() }
func VerifC01T_BatchRemoveEntities()   { vNoMul = true; VerifC06_RemoveEntitiesPlain() }
func VerifC01T_IncrementalShrinkRel()  { vNoMul = true; VerifC15_IncrementalShrinkRel() }

// C02 handles: batch creation and removal, Reset ("issued since it was created or last reset")
func VerifC02_AliveAcrossResetPlain() { VerifC16_WorldResetPlain() }
func VerifC02_AliveAcrossResetRel()   { VerifC16_WorldResetRel() }
func VerifC02_BatchNewRel()           { VerifC06_NewRel() }
func VerifC02_BatchRemoveEntities()   { VerifC06_RemoveEntitiesRelConcrete() }
func VerifC02_CopyEntity()            { VerifC01_RelCopy() }

// C03 queries: per-query targets of typed queries after batch use of the filter
func VerifC03_TypedQueriesAfterBatch() { VerifC14_TypedQueriesAfterBatch() }

// C04 relations: batch removal of targets, Shrink and Reset interleaved
func VerifC04_BatchRemoveEntities()       { VerifC06_RemoveEntitiesRelConcrete() }
func VerifC04_BatchRemoveEntitiesTarget() { VerifC06_RemoveEntitiesRelTarget() }
func VerifC04_BatchSetRelations()         { VerifC06_SetRelations() }
func VerifC04_Shrink()                    { VerifC15_RelShrink() }
func VerifC04_ShrinkAfterReset()          { VerifC15_ShrinkAfterReset() }
func VerifC04_IncrementalShrink()         { VerifC15_IncrementalShrinkRel() }
func VerifC04_Reset()                     { VerifC16_WorldResetRel() }

// C05 cached filters: Shrink and Reset with registered filters (standing filters of the shapes)
func VerifC05_Shrink()            { VerifC15_RelShrink() }
func VerifC05_IncrementalShrink() { VerifC15_IncrementalShrinkRel() }
func VerifC05_ShrinkAfterReset()  { VerifC15_ShrinkAfterReset() }
func VerifC05_Reset()             { VerifC16_WorldResetRel() }

// C06 batch creation through every API path
func VerifC06_BatchCreateMatrix() { VerifC09_BatchCreateMatrix() }

// C07 lock discipline: batch callbacks run locked, whatever is registered
func VerifC07_BatchCreateMatrix() { VerifC09_BatchCreateMatrix() }

// C10 rejected calls: every structural change of a locked world
func VerifC10_LockedAdd()           { VerifC07_LockedAdd() }
func VerifC10_LockedRemove()        { VerifC07_LockedRemove() }
func VerifC10_LockedRemoveEntity()  { VerifC07_LockedRemoveEntity() }
func VerifC10_LockedSetRelations()  { VerifC07_LockedSetRelations() }
func VerifC10_LockedBatchAndReset() { VerifC07_LockedBatchAndReset() }

// C15 Shrink is invisible to cached filters and later queries
func VerifC15_CachedAfterOpRel()         { VerifC05_CachedAfterOpRel() }
func VerifC15_UnsafeQueryAfterScenario() { VerifC03_UnsafeQueryAfterScenario() }

// C16 Reset: handles of the old world are dead (pool), observers gone
func VerifC16_ShrinkAfterReset() { VerifC15_ShrinkAfterReset() }

// C13 first use of a filter while other queries are open (the state a second goroutine finds)
func VerifC13_NestedFirstUsePlain() { VerifC03_NestedFirstUsePlain() }
func VerifC13_NestedFirstUseRel()   { VerifC03_NestedFirstUseRel() }

// C01 / C16: whole-table reset after growth
func VerifC01_TableResetAfterGrowth() { VerifC11_TableResetAfterGrowth() }

// C06 / C11: the bulk-move kernel (AddAll / CopyToEnd with pointer-bearing columns into a
// destination that already holds rows) and the swap-remove kernel
func VerifC06_TableAddAll() { VerifC01_TableAddAll() }
func VerifC11_TableAddAll() { VerifC01_TableAddAll() }
func VerifC11_TableRemove() { VerifC01_TableRemove() }
func VerifC11_TableAdd()    { VerifC01_TableAdd() }

// C07: every batch callback runs with the world locked, whatever observers are registered
func VerifC07_BatchRemoveEntitiesRel()   { VerifC06_RemoveEntitiesRel() }
func VerifC07_BatchRemoveEntitiesPlain() { VerifC06_RemoveEntitiesPlain() }
func VerifC07_BatchAddRel()              { VerifC06_AddRel() }
func VerifC07_BatchExchangeRelation()    { VerifC06_ExchangeRelation() }
func VerifC07_BatchSetRelations()        { VerifC06_SetRelations() }
func VerifC07_BatchNewRel()              { VerifC06_NewRel() }

// C16: whole-table reset (World.Reset resets every table) at every size
func VerifC16_TableResetAfterGrowth() { VerifC11_TableResetAfterGrowth() }
func VerifC16_TableReset()            { VerifC01_TableReset() }

// C15: capacity change keeps every column's rows (kernel)
func VerifC11_TableShrink() { VerifC15_TableShrink() }

// C05: batch selection through a registered filter equals the unregistered one, and the cache
// entry survives the batch and the next one (batchEpilogue)
func VerifC05_BatchAddPlain()          { VerifC06_AddPlain() }
func VerifC05_BatchRemoveEntitiesRel() { VerifC06_RemoveEntitiesRel() }
func VerifC05_BatchSetRelations()      { VerifC06_SetRelations() }
func VerifC05_BatchExchangeRelation()  { VerifC06_ExchangeRelation() }

// C03: queries in worlds that went through a Reset
func VerifC03_AfterReset() { VerifC16_WorldResetRel() }

// C04: the Shrink-freed table is recycled for another target
func VerifC04_RecycleAfterShrinkFreedTable() { VerifC15_RecycleAfterShrinkFreedTable() }
func VerifC15_RecycleAfterArchetypeMove()    { VerifC04_RecycleAfterArchetypeMove() }

// C11: component data (also the payload of relation components) is unchanged by single-entity moves
// (concrete, pairwise different values: a world whose data a move corrupted stays evaluable)
func VerifC11_RelSetRelations() { vConcreteValues = true; VerifC04_RelSetRelations() }
func VerifC11_RelCopy()         { vConcreteValues = true; VerifC01_RelCopy() }
func VerifC11_RelExchange()     { vConcreteValues = true; VerifC01_RelExchange() }

// C01: mappers created early stay faithful when the registry grows; C02: batch retargeting
func VerifC01_EarlyMappersAcrossGrowth() { vManyComponents(70) }
func VerifC02_BatchSetRelations()        { VerifC06_SetRelations() }
func VerifC10_LockedBatchCreateMatrix()  { VerifC07_LockedBatchCreateMatrix() }

// C04: "a relation target is always the zero entity or an alive entity" — stale and recycled
// handles offered as targets are rejected (the C10 mode of the relation steps)
func VerifC04_RejectedRelSetRelations() { VerifC10_RelSetRelations() }
func VerifC04_RejectedRelAdd()          { VerifC10_RelAdd() }
func VerifC04_RejectedRelNew()          { VerifC10_RelNew() }

// C08: creation events of every batch-creation path fire for the new rows only
func VerifC08_BatchCreateMatrix() { VerifC09_BatchCreateMatrix() }
