//go:build verif

package ecs

// ---- C01/C11 table-level lemmas: one table operation from a table whose length, row
// contents (entity, trivial and pointer-bearing component cells) and the operated row are
// SYMBOLIC; capacity 4 (growth at len == cap). Rows >= len are zero before (I-zero) and
// must be zero afterwards.

const vTCap = 4

type vRow struct {
	e   Entity
	pos vPos
	ptr vPtrC
}

type vTab struct {
	W    *vWorld
	t    *table
	rows [2 * vTCap]vRow
	n    uint32
	px   [2 * vTCap]uint32
}

func (T *vTab) colPos(r uintptr) *vPos  { return (*vPos)(T.t.Get(T.W.id[cA], r)) }
func (T *vTab) colPtr(r uintptr) *vPtrC { return (*vPtrC)(T.t.Get(T.W.id[cP], r)) }

// vArbTable: the {A,P} table of a fresh world with capacity vTCap, symbolic length and rows
func vArbTable(minLen uint32) *vTab {
	W := vNewWorld(vTCap, vTCap, 0)
	// columns A (trivial), T (zero-size tag, between the data columns), P (pointer-bearing)
	h := W.u.NewEntity(W.id[cA], W.id[cT], W.id[cP])
	W.w.RemoveEntity(h)
	T := &vTab{W: W}
	for i := range W.w.storage.tables {
		if W.w.storage.tables[i].Has(W.id[cP]) {
			T.t = &W.w.storage.tables[i]
		}
	}
	n := vU32("len")
	vassume(n >= minLen && n <= vTCap)
	T.n = vconcrete(n)
	T.t.len = T.n
	for r := uint32(0); r < T.n; r++ {
		row := vRow{e: Entity{entityID(vU32("row.id")), vU32("row.gen")}, pos: vPos{vU32("row.x"), vU32("row.y")}, ptr: vPtrC{&T.px[r], vU32("row.n")}}
		T.rows[r] = row
		T.t.SetEntity(r, row.e)
		*T.colPos(uintptr(r)) = row.pos
		*T.colPtr(uintptr(r)) = row.ptr
	}
	return T
}

func (T *vTab) rowIs(r uint32, want vRow) bool {
	return T.t.GetEntity(uintptr(r)) == want.e && *T.colPos(uintptr(r)) == want.pos && *T.colPtr(uintptr(r)) == want.ptr
}
func (T *vTab) zeroFrom(from uint32) bool {
	ok := true
	for r := from; r < T.t.cap; r++ {
		ok = ok && *T.colPos(uintptr(r)) == vPos{} && *T.colPtr(uintptr(r)) == vPtrC{}
	}
	return ok
}

func VerifC01_TableRemove() {
	T := vArbTable(1)
	idx := vU32("index")
	vassume(idx < T.n)
	idx = vconcrete(idx)
	swapped := T.t.Remove(idx)
	vcheck("len-decremented", T.t.len == T.n-1)
	vcheck("swapped-iff-not-last", swapped == (idx != T.n-1))
	ok := true
	for r := uint32(0); r < T.n-1; r++ {
		want := T.rows[r]
		if r == idx {
			want = T.rows[T.n-1]
		}
		ok = ok && T.rowIs(r, want)
	}
	vcheck("rows-after-swap-remove", vpure(func() bool { return ok }))
	vcheck("vacated-rows-zero", vpure(func() bool { return T.zeroFrom(T.n - 1) }))
	vreach("end")
}

func VerifC01_TableAdd() {
	T := vArbTable(0)
	e := Entity{entityID(vU32("new.id")), vU32("new.gen")}
	oldCap := T.t.cap
	r := T.t.Add(e)
	vcheck("row-index", r == T.n && T.t.len == T.n+1)
	vcheck("capacity", T.t.cap >= T.t.len && (T.n < oldCap && T.t.cap == oldCap || T.n == oldCap && T.t.cap == capPow2(T.n+1)))
	ok := T.t.GetEntity(uintptr(r)) == e && *T.colPos(uintptr(r)) == vPos{} && *T.colPtr(uintptr(r)) == vPtrC{}
	for k := uint32(0); k < T.n; k++ {
		ok = ok && T.rowIs(k, T.rows[k])
	}
	vcheck("old-rows-kept-new-row-zero", vpure(func() bool { return ok }))
	vcheck("rows-beyond-len-zero", vpure(func() bool { return T.zeroFrom(T.n + 1) }))
	// the component storage index follows a reallocation
	col := W0(T).storage.components[T.W.id[cA].id].columns[T.t.id]
	vcheck("component-storage-points-to-column", col == T.t.Column(T.W.id[cA]) && col.pointer == T.t.Column(T.W.id[cA]).pointer)
	vreach("end")
}

func W0(T *vTab) *World { return T.W.w }

func VerifC01_TableReset() {
	T := vArbTable(0)
	T.t.Reset()
	vcheck("len-zero", T.t.len == 0)
	vcheck("all-rows-zero", vpure(func() bool { return T.zeroFrom(0) }))
	vreach("end")
}

// AddAll / moveEntities: rows of a source table appended to a destination with the same layout
func VerifC01_TableAddAll() {
	T := vArbTable(0)
	// destination: a second table of the same archetype layout in another world is not possible;
	// use the relation-free twin archetype {A,P} of a second world with its own rows
	D := vArbTable(0)
	cnt := T.n
	D.t.AddAll(T.t, cnt)
	vcheck("dst-len", D.t.len == D.n+cnt && D.t.cap >= D.t.len)
	ok := true
	for k := uint32(0); k < D.n; k++ {
		ok = ok && D.rowIs(k, D.rows[k])
	}
	for k := uint32(0); k < cnt; k++ {
		ok = ok && D.rowIs(D.n+k, T.rows[k])
	}
	vcheck("dst-rows", vpure(func() bool { return ok }))
	vcheck("dst-rows-beyond-len-zero", vpure(func() bool { return D.zeroFrom(D.n + cnt) }))
	vreach("end")
}

// Shrink of one table: capacity arithmetic plus data preservation
func VerifC15_TableShrink() {
	T := vArbTable(0)
	minCap := vconcrete(1 + vU32("mincap")%4)
	// give the table spare capacity first
	T.t.adjustCapacity(8)
	did := T.t.Shrink(minCap)
	target := capPow2(T.n)
	if target < minCap {
		target = minCap
	}
	vcheck("shrunk-iff-possible", did == (8 > target) && T.t.cap == minU32(8, target) && T.t.len == T.n)
	ok := true
	for k := uint32(0); k < T.n; k++ {
		ok = ok && T.rowIs(k, T.rows[k])
	}
	vcheck("rows-kept", vpure(func() bool { return ok }))
	vcheck("rows-beyond-len-zero", vpure(func() bool { return T.zeroFrom(T.n) }))
	vreach("end")
}

func minU32(a, b uint32) uint32 {
	if a < b {
		return a
	}
	return b
}

// Reset of a table that was filled through the real Add path (growing from capacity 4 by
// doubling) to lengths below, at and above the 64-row threshold where column.Reset switches
// strategy: afterwards every cell of every column up to the capacity is zero, for the
// trivial and the pointer-bearing column, and the table can be refilled with zero-initialised rows.
func vTableResetAfterGrowth(n uint32) {
	W := vNewWorld(vTCap, vTCap, 0)
	h := W.u.NewEntity(W.id[cA], W.id[cP])
	W.w.RemoveEntity(h)
	T := &vTab{W: W}
	for i := range W.w.storage.tables {
		if W.w.storage.tables[i].Has(W.id[cP]) {
			T.t = &W.w.storage.tables[i]
		}
	}
	x := vU32("x")
	vassume(x != 0)
	var cell uint32
	for r := uint32(0); r < n; r++ {
		row := T.t.Add(Entity{entityID(r + 2), 0})
		*T.colPos(uintptr(row)) = vPos{x, r + 1}
		*T.colPtr(uintptr(row)) = vPtrC{&cell, r + 1}
	}
	vcheck("filled", T.t.len == n && T.t.cap >= n)
	T.t.Reset()
	vcheck("len-zero", T.t.len == 0)
	vcheck("all-cells-zero-up-to-capacity", vpure(func() bool { return T.zeroFrom(0) }))
	row := T.t.Add(Entity{2, 1})
	vcheck("refilled-row-zero-initialised", *T.colPos(uintptr(row)) == vPos{} && *T.colPtr(uintptr(row)) == vPtrC{})
	vreach("end")
}

func VerifC11_TableResetAfterGrowth() {
	vTableResetAfterGrowth([]uint32{1, 3, 5, 64, 65, 100}[vPick("rows", 6)])
}
