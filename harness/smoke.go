//go:build verif

package ecs

type vPos struct{ X, Y uint32 }
type vVel struct{ DX uint32 }
type vTag struct{}
type vPtrC struct {
	P *uint32
	N uint32
}
type vChild struct {
	RelationMarker
}
type vChild2 struct {
	RelationMarker
	W uint32
}

// VerifSmoke_World drives the real API concretely (no symbolic input): engine gate.
func VerifSmoke_World() {
	w := NewWorld(2)
	mp := NewMap1[vPos](w)
	mv := NewMap2[vPos, vVel](w)
	e1 := mp.NewEntity(&vPos{1, 2})
	e2 := mv.NewEntity(&vPos{3, 4}, &vVel{5})
	e3 := mp.NewEntity(&vPos{6, 7})
	e4 := mp.NewEntity(&vPos{8, 9}) // growth past capacity 2
	vcheck("alive", w.Alive(e1) && w.Alive(e2) && w.Alive(e3) && w.Alive(e4))
	vcheck("get1", mp.Get(e1).X == 1 && mp.Get(e1).Y == 2)
	vcheck("get4", mp.Get(e4).X == 8 && mp.Get(e4).Y == 9)
	f := NewFilter1[vPos](w)
	q := f.Query()
	n := 0
	sum := uint32(0)
	for q.Next() {
		n++
		sum += q.Get().X
	}
	vcheck("count", n == 4)
	vcheck("sum", sum == 18)
	vcheck("unlocked", !w.IsLocked())
	w.RemoveEntity(e1)
	vcheck("dead", !w.Alive(e1))
	vcheck("get4b", mp.Get(e4).X == 8)
	mvv := NewMap1[vVel](w)
	mvv.Add(e3, &vVel{11})
	vcheck("added", mv.HasAll(e3))
	a, b := mv.Get(e3)
	vcheck("vals", a.X == 6 && b.DX == 11)
	mvv.Remove(e2)
	vcheck("removed", !mvv.HasAll(e2) && mp.Get(e2).X == 3)
	e5 := w.NewEntity()
	vcheck("recycled", e5.id == e1.id && e5.gen == e1.gen+1)
	vreach("end")
}

// VerifSmoke_Rel: relations, pointer components, observers, stats, reset.
func VerifSmoke_Rel() {
	w := NewWorld(1, 1)
	parent := w.NewEntity()
	parent2 := w.NewEntity()
	mc := NewMap2[vChild, vPtrC](w)
	x := uint32(7)
	c1 := mc.NewEntity(&vChild{}, &vPtrC{&x, 1}, RelIdx(0, parent))
	c2 := mc.NewEntity(&vChild{}, &vPtrC{&x, 2}, RelIdx(0, parent2))
	c3 := mc.NewEntity(&vChild{}, &vPtrC{nil, 3}, RelIdx(0, parent))
	vcheck("rel", mc.GetRelation(c1, 0) == parent && mc.GetRelation(c2, 0) == parent2)
	fired := 0
	Observe(OnRemoveEntity).Do(func(e Entity) { fired++ }).Register(w)
	f := NewFilter1[vChild](w).Relations(RelIdx(0, parent))
	q := f.Query()
	n := 0
	for q.Next() {
		n++
	}
	vcheck("relcount", n == 2)
	w.RemoveEntity(parent)
	vcheck("fired", fired == 1)
	vcheck("detached", mc.GetRelation(c1, 0).IsZero() && mc.GetRelation(c3, 0).IsZero())
	_, pc := mc.Get(c1)
	vcheck("ptrkept", pc.P == &x && pc.N == 1)
	st := w.Stats()
	vcheck("stats", st.Entities.Used == 4)
	w.Shrink()
	w.Reset()
	vcheck("reset", !w.Alive(c2) && w.Stats().Entities.Used == 0)
	_ = c3
	vreach("end")
}
