//go:build verif

package ecs

// ---- C06: a batch operation over a SYMBOLIC filter selects exactly the model
// set {e | match(e)} taken before the change, has the effect of the single
// operation on each selected entity, and calls back once per selected entity
// with that entity's handle and component pointer.

func (W *vWorld) batch(q *vQuerySpec) Batch {
	flt := &q.f
	if vPick("batch-filter-registered", 2) == 1 {
		// the same masks in a registered filter: the selection then comes from the cache entry
		// (and must still honour emptiness and the per-call relation targets)
		f := NewFilter0(W.w)
		f.filter.mask, f.filter.without, f.filter.hasWithout = q.f.mask, q.f.without, q.f.hasWithout
		f.Register()
		flt = &f.filter
		W.regBatch = f
	}
	b := Batch{filter: flt}
	if q.hasRel {
		b.relations = []relationID{{target: q.target, component: W.id[q.relComp]}}
	}
	return b
}

// selection evaluated on the pre-state model; concrete per path (the real code's
// own decisions already fixed it, the solver only confirms)
func (W *vWorld) selection(q *vQuerySpec) [vNE]bool {
	var sel [vNE]bool
	for j := 0; j < W.n; j++ {
		if vpure(func() bool { return W.matches(j, q) }) {
			sel[j] = true
		}
	}
	return sel
}

type vBatchRec struct {
	W         *vWorld
	visits    [vNE]int
	strangers int
	badPtr    int
	unlocked  int
}

func (r *vBatchRec) see(e Entity) int {
	j := r.W.indexOf(e)
	if j < 0 {
		r.strangers++
		return -1
	}
	r.visits[j]++
	if !r.W.w.IsLocked() {
		r.unlocked++
	}
	return j
}

func (r *vBatchRec) check(tag string, sel *[vNE]bool) {
	vcheck(tag+"/callback-only-known-entities", r.strangers == 0)
	vcheck(tag+"/callback-pointers-are-that-entitys", r.badPtr == 0)
	vcheck(tag+"/world-locked-in-callback", r.unlocked == 0)
	for j := 0; j < r.W.n; j++ {
		exp := 0
		if sel[j] {
			exp = 1
		}
		vcheck(tag+"/callback-exactly-once-per-selected", r.visits[j] == exp)
	}
}

func vBatchShape(kind int) *vWorld { return vShapeFor(kind) }

// AddBatchFn: add B (vVel) with a per-entity symbolic value
func vBatchAdd(kind int, withRel bool) {
	W := vBatchShape(kind)
	q := W.arbQuerySpec(withRel)
	vassume(q.f.hasWithout && q.f.without.Get(W.id[cB].id)) // precondition: nobody selected has B
	sel := W.selection(q)
	var vals [vNE]uint32
	for j := range vals {
		vals[j] = vU32("newvel")
	}
	rec := &vBatchRec{W: W}
	mp := NewMap1[vVel](W.w)
	vcheck("add/no-panic", !vpanics(func() {
		mp.AddBatchFn(W.batch(q), func(e Entity, p *vVel) {
			j := rec.see(e)
			if j >= 0 {
				if p != W.getVel(e) {
					rec.badPtr++
				}
				p.DX = vals[j]
			}
		})
	}))
	for j := 0; j < W.n; j++ {
		if sel[j] {
			W.e[j].has[cB] = true
			W.e[j].vel = vVel{vals[j]}
		}
	}
	rec.check("add", &sel)
	W.checkAll("add")
	W.batchEpilogue("add", q)
	vreach("end")
}

// RemoveBatch: remove B from everything selected
func vBatchRemove(kind int, withRel bool) {
	W := vBatchShape(kind)
	q := W.arbQuerySpec(withRel)
	vassume(q.f.mask.Get(W.id[cB].id)) // precondition: everybody selected has B
	sel := W.selection(q)
	rec := &vBatchRec{W: W}
	mp := NewMap1[vVel](W.w)
	vcheck("remove/no-panic", !vpanics(func() {
		mp.RemoveBatch(W.batch(q), func(e Entity) { rec.see(e) })
	}))
	for j := 0; j < W.n; j++ {
		if sel[j] {
			W.e[j].has[cB] = false
		}
	}
	rec.check("remove", &sel)
	W.checkAll("remove")
	W.batchEpilogue("remove", q)
	vreach("end")
}

// ExchangeBatchFn: add T, remove A
func vBatchExchange(kind int) {
	W := vBatchShape(kind)
	q := W.arbQuerySpec(false)
	vassume(q.f.mask.Get(W.id[cA].id) && q.f.hasWithout && q.f.without.Get(W.id[cB].id))
	sel := W.selection(q)
	var vals [vNE]uint32
	for j := range vals {
		vals[j] = vU32("newvel")
	}
	rec := &vBatchRec{W: W}
	ex := NewExchange1[vVel](W.w).Removes(C[vPos]())
	vcheck("exchange/no-panic", !vpanics(func() {
		ex.ExchangeBatchFn(W.batch(q), func(e Entity, p *vVel) {
			j := rec.see(e)
			if j >= 0 {
				if p != W.getVel(e) {
					rec.badPtr++
				}
				p.DX = vals[j]
			}
		})
	}))
	for j := 0; j < W.n; j++ {
		if sel[j] {
			W.e[j].has[cB], W.e[j].has[cA] = true, false
			W.e[j].vel = vVel{vals[j]}
		}
	}
	rec.check("exchange", &sel)
	W.checkAll("exchange")
	W.batchEpilogue("exchange", q)
	vreach("end")
}

// RemoveBatch of a relation component: several source tables map to one destination
func vBatchRemoveRelation() {
	W := vBatchShape(1)
	q := W.arbQuerySpec(false)
	vassume(q.f.mask.Get(W.id[cR1].id))
	sel := W.selection(q)
	rec := &vBatchRec{W: W}
	mp := NewMap1[vChild](W.w)
	vcheck("remove-rel/no-panic", !vpanics(func() {
		mp.RemoveBatch(W.batch(q), func(e Entity) { rec.see(e) })
	}))
	for j := 0; j < W.n; j++ {
		if sel[j] {
			W.e[j].has[cR1] = false
			W.e[j].tgt[0] = Entity{}
		}
	}
	rec.check("remove-rel", &sel)
	W.checkAll("remove-rel")
	W.batchEpilogue("remove-rel", q)
	vreach("end")
}

// ExchangeBatchFn removing the relation and adding B: destination shared by several sources
func vBatchExchangeRelation() {
	W := vBatchShape(1)
	q := W.arbQuerySpec(false)
	vassume(q.f.mask.Get(W.id[cR1].id) && q.f.hasWithout && q.f.without.Get(W.id[cB].id))
	sel := W.selection(q)
	var vals [vNE]uint32
	for j := range vals {
		vals[j] = vU32("newvel")
	}
	rec := &vBatchRec{W: W}
	ex := NewExchange1[vVel](W.w).Removes(C[vChild]())
	vcheck("exchange-rel/no-panic", !vpanics(func() {
		ex.ExchangeBatchFn(W.batch(q), func(e Entity, p *vVel) {
			j := rec.see(e)
			if j >= 0 {
				if p != W.getVel(e) {
					rec.badPtr++
				}
				p.DX = vals[j]
			}
		})
	}))
	for j := 0; j < W.n; j++ {
		if sel[j] {
			W.e[j].has[cB], W.e[j].has[cR1] = true, false
			W.e[j].tgt[0] = Entity{}
			W.e[j].vel = vVel{vals[j]}
		}
	}
	rec.check("exchange-rel", &sel)
	W.checkAll("exchange-rel")
	W.batchEpilogue("exchange-rel", q)
	vreach("end")
}

// SetRelationsBatch: new target for R1 of everything selected
func vBatchSetRelations() {
	W := vBatchShape(1)
	q := W.arbQuerySpec(false)
	vassume(q.f.mask.Get(W.id[cR1].id))
	t := W.pickTarget("target")
	if !W.targetOK(t) {
		return // rejected targets are C10's business
	}
	sel := W.selection(q)
	rec := &vBatchRec{W: W}
	mp := NewMap1[vChild](W.w)
	vcheck("setrel/no-panic", !vpanics(func() {
		mp.SetRelationsBatch(W.batch(q), func(e Entity) { rec.see(e) }, RelIdx(0, t))
	}))
	for j := 0; j < W.n; j++ {
		if sel[j] {
			// the callback is documented to run for affected entities; an entity whose
			// target already is t is not moved and not reported
			if W.e[j].tgt[0] == t {
				sel[j] = false
			}
			W.e[j].tgt[0] = t
		}
	}
	rec.check("setrel", &sel)
	W.checkAll("setrel")
	W.batchEpilogue("setrel", q)
	vreach("end")
}

// RemoveEntities: selected entities die, survivors' targets in the batch become zero
func vBatchRemoveEntities(kind int, withRel bool) {
	W := vBatchShape(kind)
	q := W.arbQuerySpec(withRel)
	sel := W.selection(q)
	rec := &vBatchRec{W: W}
	vcheck("remove-entities/no-panic", !vpanics(func() {
		W.w.RemoveEntities(W.batch(q), func(e Entity) { rec.see(e) })
	}))
	for j := 0; j < W.n; j++ {
		if sel[j] {
			W.e[j].alive = false
		}
	}
	for j := 0; j < W.n; j++ {
		if sel[j] {
			W.detach(W.e[j].h)
		}
	}
	rec.check("remove-entities", &sel)
	W.checkAll("remove-entities")
	W.batchEpilogue("remove-entities", q)
	vreach("end")
}

// NewBatchFn / NewEntities: count new entities, callback once each, fresh handles
func vBatchNew(kind int) {
	W := vBatchShape(kind)
	count := vPick("count", 4)
	if W.n+count > vNE {
		return
	}
	var vals [4]uint32
	for j := range vals {
		vals[j] = vU32("newpos")
	}
	n0 := W.n
	seen := 0
	bad := 0
	mp := NewMap1[vPos](W.w)
	typed := vPick("api", 2) == 0
	vcheck("new/no-panic", !vpanics(func() {
		if typed {
			mp.NewBatchFn(count, func(e Entity, p *vPos) {
				if W.indexOf(e) >= 0 || !W.w.Alive(e) || p != W.getPos(e) || !W.w.IsLocked() || *p != (vPos{}) {
					bad++
				}
				if W.n < vNE && seen < 4 {
					W.e[W.n] = vEnt{h: e, alive: true}
					W.e[W.n].has[cA] = true
					W.e[W.n].pos = vPos{vals[seen], 7}
					*p = W.e[W.n].pos
					W.n++
				}
				seen++
			})
		} else {
			W.w.NewEntities(count, func(e Entity) {
				if W.indexOf(e) >= 0 || !W.w.Alive(e) || !W.w.IsLocked() {
					bad++
				}
				if W.n < vNE {
					W.e[W.n] = vEnt{h: e, alive: true}
					W.n++
				}
				seen++
			})
		}
	}))
	vcheck("new/callback-once-per-new-entity", seen == count && W.n == n0+count)
	vcheck("new/fresh-alive-zeroed-locked", bad == 0)
	W.checkAll("new")
	vreach("end")
}

func VerifC06_AddPlain()            { vBatchAdd(0, false) }
func VerifC06_AddRel()              { vBatchAdd(1, false) }
func VerifC06_AddRelTarget()        { vBatchAdd(1, true) }
func VerifC06_RemovePlain()         { vBatchRemove(0, false) }
func VerifC06_ExchangePlain()       { vBatchExchange(0) }
func VerifC06_RemoveRelation()      { vBatchRemoveRelation() }
func VerifC06_ExchangeRelation()    { vBatchExchangeRelation() }
func VerifC06_SetRelations()        { vBatchSetRelations() }
func VerifC06_RemoveEntitiesPlain() { vBatchRemoveEntities(0, false) }
func VerifC06_RemoveEntitiesRel()   { vBatchRemoveEntities(1, false) }

// the same with concrete (pairwise different) component values: a corrupted world stays
// cheap to evaluate for the specification, whatever the batch did to it
func VerifC06_RemoveEntitiesRelConcrete() {
	vConcreteValues = true
	vBatchRemoveEntities(1, false)
	vConcreteValues = false
}
func VerifC06_RemoveEntitiesRelTarget() {
	vBatchRemoveEntities(1, true)
}
func VerifC06_NewPlain() { vBatchNew(0) }
func VerifC06_NewRel()   { vBatchNew(1) }

// ---- C10 for batch forms: a batch call whose precondition fails (component already
// present / missing, dead relation target) panics and leaves entities, components,
// values, relations AND the lock state exactly as before.
func VerifC10_BatchPreconditions() {
	vMode = 0
	W := vShapeFor(1)
	all := NewFilter1[vPos](W.w)
	dead := Entity{}
	for j := 0; j < W.n; j++ {
		if !W.e[j].alive {
			dead = W.e[j].h
		}
	}
	which := vPick("call", 6)
	W.expectReject("batch", func() {
		switch which {
		case 0: // every selected entity already has A
			NewMap1[vPos](W.w).AddBatch(all.Batch(), &vPos{1, 2})
		case 1: // nobody selected has T
			NewMap1[vTag](W.w).RemoveBatch(all.Batch(), nil)
		case 2: // exchange removing a missing component
			NewExchange1[vVel](W.w).Removes(C[vTag]()).ExchangeBatch(all.Without(C[vVel]()).Batch(), &vVel{1})
		case 3: // dead relation target
			NewMap1[vChild](W.w).SetRelationsBatch(NewFilter1[vChild](W.w).Batch(), nil, RelIdx(0, dead))
		case 4: // adding a relation component without naming its target
			NewMap1[vChild2](W.w).AddBatch(all.Without(C[vChild2]()).Batch(), &vChild2{})
		case 5: // some selected entities have the component, some do not
			NewMap1[vPos](W.w).AddBatch(NewFilter0(W.w).Batch(), &vPos{3, 4})
		}
	})
	vreach("end")
}

// ---- C10: every checked entry point of World, Unsafe, Map[T], Map1 and Exchange1, called
// with each kind of unusable handle — removed and never reused, removed with the id reused
// by a newer entity, the zero entity — panics and leaves the world (model, invariants, lock
// state, pool) exactly as it was.
func VerifC10_UnusableHandleMatrix() {
	vMode = 0
	W := vShapeFor(1)
	var stale [3]Entity
	nStale := 0
	for j := 0; j < W.n && nStale < 2; j++ { // the relation shape holds both kinds of dead handle
		if !W.e[j].alive {
			stale[nStale] = W.e[j].h
			nStale++
		}
	}
	stale[nStale] = Entity{}
	nStale++
	h := stale[vPick("handle", nStale)]
	p0 := W.e[0].h
	idA, idB, idR1 := W.id[cA], W.id[cB], W.id[cR1]
	mA, m1 := NewMap[vPos](W.w), NewMap1[vVel](W.w)
	mR := NewMap[vChild](W.w)
	ex := NewExchange1[vVel](W.w).Removes(C[vPos]())
	call := vPick("call", 24)
	W.expectReject("unusable-handle", func() {
		switch call {
		case 0:
			W.w.RemoveEntity(h)
		case 1:
			W.w.CopyEntity(h)
		case 2:
			W.u.Get(h, idA)
		case 3:
			W.u.Has(h, idA)
		case 4:
			W.u.GetRelation(h, idR1)
		case 5:
			W.u.SetRelations(h, RelID(idR1, p0))
		case 6:
			W.u.Add(h, idB)
		case 7:
			W.u.AddRel(h, []ID{idR1}, RelID(idR1, p0))
		case 8:
			W.u.Remove(h, idA)
		case 9:
			W.u.Exchange(h, []ID{idB}, []ID{idA})
		case 10:
			W.u.IDs(h)
		case 11:
			mA.Get(h)
		case 12:
			mA.Has(h)
		case 13:
			mA.Set(h, &vPos{1, 2})
		case 14:
			mA.Add(h, &vPos{1, 2})
		case 15:
			mA.AddFn(h, nil)
		case 16:
			mA.Remove(h)
		case 17:
			mR.GetRelation(h)
		case 18:
			mR.SetRelation(h, p0)
		case 19:
			m1.Get(h)
		case 20:
			m1.Add(h, &vVel{3})
		case 21:
			m1.Remove(h)
		case 22:
			ex.Exchange(h, &vVel{3})
		case 23:
			ex.ExchangeFn(h, nil)
		}
	})
	vreach("end")
}

// batchEpilogue: when the batch selected through a registered filter, a following batch
// through another (unregistered) filter must leave the registered filter's cache entry
// intact — scratch lists handed out by the selection step must not alias the cache.
type vEpilogue struct{ X uint16 }

func (W *vWorld) batchEpilogue(tag string, q *vQuerySpec) {
	if W.regBatch == nil {
		return
	}
	// two throwaway entities of a component type nothing else uses, removed by the next batch
	idX := ComponentID[vEpilogue](W.w)
	W.u.NewEntity(idX)
	W.u.NewEntity(idX)
	vcheck(tag+"/next-batch-no-panic", !vpanics(func() { W.w.RemoveEntities(NewFilter1[vEpilogue](W.w).Batch(), nil) }))
	plain := &vQuerySpec{f: q.f}
	qu := W.regBatch.Query()
	n, strangers := 0, 0
	var visits [vNE]int
	for qu.Next() {
		if j := W.indexOf(qu.Entity()); j >= 0 {
			visits[j]++
			n++
		} else {
			strangers++
		}
		if n > vNE {
			break
		}
	}
	W.checkVisits(tag+"/registered-filter-after-next-batch", plain, &visits, strangers, n)
	W.checkAll(tag + "/after-next-batch")
}

// ---- C10: "omitting a required relation target ... always panics" — also on a mapper /
// exchange object that was used WITH a target just before (objects cache converted relations)
func VerifC10_OmittedTargetAfterUse() {
	vMode = 0
	W := vShapeFor(1)
	p0 := W.e[0].h
	x, y := 1, 0 // p1 receives the relation validly, then p0 is tried without a target
	mR := NewMap[vChild](W.w)
	m1 := NewMap1[vChild](W.w)
	ex := NewExchange1[vChild](W.w)
	api := vPick("api", 9)
	// valid use with a target
	vcheck("with-target/no-panic", !vpanics(func() {
		switch api {
		case 0, 1, 2, 3, 4:
			mR.Add(W.e[x].h, &vChild{}, p0)
		case 5, 6:
			m1.Add(W.e[x].h, &vChild{}, RelIdx(0, p0))
		default:
			ex.Add(W.e[x].h, &vChild{}, RelIdx(0, p0))
		}
	}))
	W.e[x].has[cR1] = true
	W.e[x].tgt[0] = p0
	W.checkAll("with-target")
	// the same object, target omitted
	W.expectReject("target-omitted", func() {
		switch api {
		case 0:
			mR.Add(W.e[y].h, &vChild{})
		case 1:
			mR.AddFn(W.e[y].h, nil)
		case 2:
			mR.NewEntity(&vChild{})
		case 3:
			mR.NewEntityFn(nil)
		case 4:
			mR.NewBatchFn(2, nil)
		case 5:
			m1.Add(W.e[y].h, &vChild{})
		case 6:
			m1.NewEntity(&vChild{})
		case 7:
			ex.Add(W.e[y].h, &vChild{})
		case 8:
			ex.AddFn(W.e[y].h, nil)
		}
	})
	vreach("end")
}

// ---- C10: "passing no components ... always panics": every entry point that takes component
// lists, called with empty lists (with and without relation arguments), is rejected without effect
func VerifC10_NoComponents() {
	vMode = 0
	W := vShapeFor(1)
	e := W.e[2].h // a child: (R1 -> p0, A)
	p1 := W.e[1].h
	idR1 := W.id[cR1]
	call := vPick("call", 9)
	W.expectReject("no-components", func() {
		switch call {
		case 0:
			W.u.Add(e)
		case 1:
			W.u.AddRel(e, nil)
		case 2:
			W.u.AddRel(e, nil, RelID(idR1, p1))
		case 3:
			W.u.Remove(e)
		case 4:
			W.u.Exchange(e, nil, nil)
		case 5:
			W.u.Exchange(e, nil, nil, RelID(idR1, p1))
		case 6:
			W.u.Exchange(e, []ID{}, []ID{}, RelID(idR1, p1))
		case 7:
			W.u.SetRelations(e)
		case 8:
			NewMap1[vChild](W.w).SetRelations(e)
		}
	})
	vreach("end")
}
