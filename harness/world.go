//go:build verif

package ecs

import (
	"unsafe"
)

// ---- World-level harness framework: model-based checking of the real API.
//
// A world is built through the real constructors (shape scripts), every component
// value is a fresh symbolic variable, the entity an operation acts on and its
// arguments are symbolic choices. A ghost model M (per tracked handle: alive, mask,
// values, targets) is updated by the documented effect of each operation and compared
// with what the public accessors return; the structural invariant INV is checked too.

const (
	cA  = 0 // vPos   8 bytes, trivial
	cB  = 1 // vVel   4 bytes, trivial
	cT  = 2 // vTag   zero size
	cP  = 3 // vPtrC  pointer-bearing (non trivial)
	cR1 = 4 // vChild  relation, zero size
	cR2 = 5 // vChild2 relation with payload
	vNC = 6
	vNE = 18 // tracked handles
)

type vEnt struct {
	h     Entity
	alive bool
	has   [vNC]bool
	pos   vPos
	vel   vVel
	ptr   vPtrC
	w2    uint32
	tgt   [2]Entity // targets of cR1, cR2
}

type vWorld struct {
	w   *World
	u   Unsafe
	id  [vNC]ID
	e   [vNE]vEnt
	n   int // tracked handles (alive or dead)
	px  [4]uint32
	obs []*Observer
	// standing registered filters of the shape (the cache is maintained by every operation and
	// characterised exactly by invCache); their ghost count for the statistics laws
	nStanding int
	// the registered filter a batch harness selected through (nil: unregistered), see batchEpilogue
	regBatch *Filter0
	standing [1]*Filter1[vPos]
	relShape bool // built by vShapeRel
}

// vNoMul: set by the thorough-only harnesses (Verif<ID>T_*), which are deep on their own and
// are not multiplied by the other component-ID placements
var vNoMul bool

func vIsRel(c int) bool { return c == cR1 || c == cR2 }

// vNewWorld registers pad dummy components first, so that the real ones get IDs pad..pad+5.
func vNewWorld(capacity, relCapacity, pad int) *vWorld {
	if pad == 60 && vthorough() && !vNoMul {
		// thorough tier: every world harness also runs with the six component IDs placed at the
		// bottom of the mask, across the word 1/2 and word 2/3 boundaries and at the top
		pad = []int{60, 0, 124, 188, 248}[vPick("component-id-placement", 5)]
	}
	W := &vWorld{w: NewWorld(capacity, relCapacity)}
	W.u = W.w.Unsafe()
	for i := 0; i < pad; i++ {
		TypeID(W.w, vNthType(i+1000))
	}
	W.id[cA] = ComponentID[vPos](W.w)
	W.id[cB] = ComponentID[vVel](W.w)
	W.id[cT] = ComponentID[vTag](W.w)
	W.id[cP] = ComponentID[vPtrC](W.w)
	W.id[cR1] = ComponentID[vChild](W.w)
	W.id[cR2] = ComponentID[vChild2](W.w)
	return W
}

// vTighten clips every growable slice to its length so that the next append reallocates
// (a reachable state in which stale pointers into the old backing arrays show up).
func vTighten(w *World) {
	s := &w.storage
	s.tables = s.tables[:len(s.tables):len(s.tables)]
	s.archetypes = s.archetypes[:len(s.archetypes):len(s.archetypes)]
	s.entities = s.entities[:len(s.entities):len(s.entities)]
	s.isTarget = s.isTarget[:len(s.isTarget):len(s.isTarget)]
	s.graph.nodes = s.graph.nodes[:len(s.graph.nodes):len(s.graph.nodes)]
	s.allArchetypes = s.allArchetypes[:len(s.allArchetypes):len(s.allArchetypes)]
	for i := range s.components {
		c := &s.components[i]
		c.columns = c.columns[:len(c.columns):len(c.columns)]
	}
	for i := range s.componentIndex {
		s.componentIndex[i] = s.componentIndex[i][:len(s.componentIndex[i]):len(s.componentIndex[i])]
	}
	p := &s.entityPool
	p.entities = p.entities[:len(p.entities):len(p.entities)]
	p.pointer = unsafe.Pointer(&p.entities[0])
	for i := range s.archetypes {
		a := &s.archetypes[i]
		a.tables.tables = a.tables.tables[:len(a.tables.tables):len(a.tables.tables)]
		a.freeTables = a.freeTables[:len(a.freeTables):len(a.freeTables)]
	}
}

// ---- reading the real world through the public accessors

func (W *vWorld) ids(cs []int) []ID {
	r := make([]ID, len(cs))
	for i, c := range cs {
		r[i] = W.id[c]
	}
	return r
}

func (W *vWorld) getPos(h Entity) *vPos   { return (*vPos)(W.u.Get(h, W.id[cA])) }
func (W *vWorld) getVel(h Entity) *vVel   { return (*vVel)(W.u.Get(h, W.id[cB])) }
func (W *vWorld) getPtr(h Entity) *vPtrC  { return (*vPtrC)(W.u.Get(h, W.id[cP])) }
func (W *vWorld) getR2(h Entity) *vChild2 { return (*vChild2)(W.u.Get(h, W.id[cR2])) }

// vAgree: every tracked handle has exactly the liveness, components, values and
// targets of the model; entity counts agree.
func (W *vWorld) agree() bool {
	ok := true
	nAlive := 0
	for i := 0; i < W.n; i++ {
		m := &W.e[i]
		ok = ok && W.w.Alive(m.h) == m.alive
		if !m.alive {
			continue
		}
		nAlive++
		for c := 0; c < vNC; c++ {
			ok = ok && W.u.Has(m.h, W.id[c]) == m.has[c]
		}
		if m.has[cA] {
			ok = ok && *W.getPos(m.h) == m.pos
		}
		if m.has[cB] {
			ok = ok && *W.getVel(m.h) == m.vel
		}
		if m.has[cP] {
			ok = ok && *W.getPtr(m.h) == m.ptr
		}
		if m.has[cR1] {
			ok = ok && W.u.GetRelation(m.h, W.id[cR1]) == m.tgt[0]
		}
		if m.has[cR2] {
			ok = ok && W.getR2(m.h).W == m.w2 && W.u.GetRelation(m.h, W.id[cR2]) == m.tgt[1]
		}
	}
	ok = ok && W.w.storage.entityPool.Len() == nAlive
	return ok
}

// symbolic component values are written through the real accessors
func (W *vWorld) havocValues(i int) {
	m := &W.e[i]
	if vConcreteValues { // determinism runs: the same concrete values in every run
		if m.has[cA] {
			m.pos = vPos{uint32(i), 7}
			*W.getPos(m.h) = m.pos
		}
		if m.has[cB] {
			m.vel = vVel{uint32(i) + 100}
			*W.getVel(m.h) = m.vel
		}
		if m.has[cP] {
			m.ptr = vPtrC{&W.px[i%4], uint32(i) + 200}
			*W.getPtr(m.h) = m.ptr
		}
		if m.has[cR2] {
			m.w2 = uint32(i) + 300
			W.getR2(m.h).W = m.w2
		}
		return
	}
	if m.has[cA] {
		m.pos = vPos{vU32("pos.x"), vU32("pos.y")}
		*W.getPos(m.h) = m.pos
	}
	if m.has[cB] {
		m.vel = vVel{vU32("vel")}
		*W.getVel(m.h) = m.vel
	}
	if m.has[cP] {
		m.ptr = vPtrC{&W.px[i%4], vU32("ptr.n")}
		*W.getPtr(m.h) = m.ptr
	}
	if m.has[cR2] {
		m.w2 = vU32("w2")
		W.getR2(m.h).W = m.w2
	}
}

// ---- model-updating wrappers of the real operations (ID-based API)

func (W *vWorld) rels(cs []int, t0, t1 Entity) []Relation {
	var r []Relation
	for _, c := range cs {
		if c == cR1 {
			r = append(r, RelID(W.id[cR1], t0))
		}
		if c == cR2 {
			r = append(r, RelID(W.id[cR2], t1))
		}
	}
	return r
}

// create an entity with components cs (targets for relation components), symbolic values
func (W *vWorld) create(cs []int, t0, t1 Entity) int {
	h := W.u.NewEntityRel(W.ids(cs), W.rels(cs, t0, t1)...)
	i := W.n
	W.n++
	W.e[i] = vEnt{h: h, alive: true}
	for _, c := range cs {
		W.e[i].has[c] = true
	}
	W.e[i].tgt = [2]Entity{}
	if W.e[i].has[cR1] {
		W.e[i].tgt[0] = t0
	}
	if W.e[i].has[cR2] {
		W.e[i].tgt[1] = t1
	}
	return i
}

func (W *vWorld) freshHandle(h Entity, upto int) bool {
	ok := true
	for j := 0; j < upto; j++ {
		ok = ok && W.e[j].h != h
	}
	return ok
}

func (W *vWorld) zeroNew(i int, cs []int) bool {
	ok := true
	m := &W.e[i]
	for _, c := range cs {
		switch c {
		case cA:
			ok = ok && *W.getPos(m.h) == vPos{}
		case cB:
			ok = ok && *W.getVel(m.h) == vVel{}
		case cP:
			ok = ok && *W.getPtr(m.h) == vPtrC{}
		case cR2:
			ok = ok && W.getR2(m.h).W == 0
		}
	}
	return ok
}

func (W *vWorld) clearModelVals(i int, cs []int) {
	m := &W.e[i]
	for _, c := range cs {
		switch c {
		case cA:
			m.pos = vPos{}
		case cB:
			m.vel = vVel{}
		case cP:
			m.ptr = vPtrC{}
		case cR2:
			m.w2 = 0
		}
	}
}

// detach: model effect of removing a target entity
func (W *vWorld) detach(t Entity) {
	for j := 0; j < W.n; j++ {
		for k := 0; k < 2; k++ {
			if W.e[j].alive && W.e[j].tgt[k] == t {
				W.e[j].tgt[k] = Entity{}
			}
		}
	}
}

func (W *vWorld) removeEntity(i int) {
	W.w.RemoveEntity(W.e[i].h)
	W.e[i].alive = false
	W.detach(W.e[i].h)
}

// ---- structural invariant INV over the real storage (section 3 of DESIGN.md)

func vEntAt(t *table, r uint32) Entity { return t.GetEntity(uintptr(r)) }

func invWorld(w *World) bool {
	s := &w.storage
	ok := len(s.entities) == len(s.isTarget) && len(s.entities) == len(s.entityPool.entities)
	// I-index / I-count: rows <-> index bijection
	total := 0
	for ti := range s.tables {
		t := &s.tables[ti]
		ok = ok && t.id == tableID(ti) && t.len <= t.cap
		total += int(t.len)
		ok = ok && (!t.isFree || t.len == 0)
		for r := uint32(0); r < t.len; r++ {
			e := vEntAt(t, r)
			ok = ok && int(e.id) < len(s.entities) && int(e.id) >= reservedEntities
			if int(e.id) < len(s.entities) {
				ok = ok && s.entityPool.Alive(e) && s.entities[e.id].table == t.id && s.entities[e.id].row == r
			}
		}
		// I-table: columns <-> archetype components, component storage index
		a := &s.archetypes[t.archetype]
		ok = ok && len(t.columns) == len(a.components) && len(t.components) == maskTotalBits
		for k := range t.columns {
			col := &t.columns[k]
			cid := a.components[k]
			ok = ok && t.components[cid.id] == col && col.index == uint32(k)
			ok = ok && s.components[cid.id].columns[ti] == col
			ok = ok && col.isRelation == s.registry.IsRelation[cid.id] && col.isTrivial == s.registry.IsTrivial[cid.id]
		}
		for c := range s.components {
			if !a.mask.Get(uint8(c)) {
				ok = ok && s.components[c].columns[ti] == nil && t.components[c] == nil
			}
		}
	}
	ok = ok && total == s.entityPool.Len()
	// I-graph: nodes have pairwise distinct masks; an edge for component c connects two nodes whose
	// masks differ in exactly bit c; archetypes and nodes reference each other with equal masks
	g := &s.graph
	for ni := range g.nodes {
		n := &g.nodes[ni]
		ok = ok && n.id == nodeID(ni)
		for nj := ni + 1; nj < len(g.nodes); nj++ {
			ok = ok && !n.mask.Equals(&g.nodes[nj].mask)
		}
		if n.archetype != maxArchetypeID {
			ok = ok && int(n.archetype) < len(s.archetypes) && s.archetypes[n.archetype].node == n.id &&
				s.archetypes[n.archetype].mask.Equals(&n.mask)
		}
		for c := 0; c < len(n.neighbors.data) && c < maskTotalBits; c++ {
			if !n.neighbors.used.Get(uint8(c)) {
				continue
			}
			to := n.neighbors.data[c]
			ok = ok && int(to) < len(g.nodes)
			if int(to) < len(g.nodes) {
				want := n.mask
				if want.Get(uint8(c)) {
					want.Clear(uint8(c))
				} else {
					want.Set(uint8(c))
				}
				ok = ok && g.nodes[to].mask.Equals(&want)
			}
		}
	}
	// I-arch
	for ai := range s.archetypes {
		a := &s.archetypes[ai]
		ok = ok && a.id == archetypeID(ai) && len(a.tables.tables) == len(a.tables.indices)
		for bi := ai + 1; bi < len(s.archetypes); bi++ {
			ok = ok && !a.mask.Equals(&s.archetypes[bi].mask)
		}
		for k, tid := range a.tables.tables {
			ok = ok && s.tables[tid].archetype == a.id && !s.tables[tid].isFree
			idx, found := a.tables.indices[tid]
			ok = ok && found && int(idx) == k
		}
		for _, tid := range a.freeTables {
			ok = ok && s.tables[tid].archetype == a.id && s.tables[tid].isFree
		}
		if !a.HasRelations() {
			ok = ok && len(a.tables.tables) == 1 && len(a.freeTables) == 0
		}
	}
	return ok
}

// I-rel: relation indices are exactly the active tables per target; targets are zero or alive.
func invRelations(w *World) bool {
	s := &w.storage
	ok := true
	for ai := range s.archetypes {
		a := &s.archetypes[ai]
		if !a.HasRelations() {
			continue
		}
		// every active table is indexed under each of its targets, and has distinct target tuples
		for k, tid := range a.tables.tables {
			t := &s.tables[tid]
			for ci := range t.columns {
				col := &t.columns[ci]
				if !col.isRelation {
					continue
				}
				tg := col.target
				ok = ok && (tg.IsZero() || (s.entityPool.Alive(tg) && s.isTarget[tg.id]))
				lst, found := a.relationTables[ci][tg.id]
				ok = ok && found
				if found {
					_, in := lst.indices[tid]
					ok = ok && in
				}
				tl, found2 := a.targetTables[tg.id]
				ok = ok && found2
				if found2 {
					_, in := tl.indices[tid]
					ok = ok && in
				}
			}
			for k2 := k + 1; k2 < len(a.tables.tables); k2++ {
				t2 := &s.tables[a.tables.tables[k2]]
				same := true
				for ci := range t.columns {
					if t.columns[ci].isRelation && t.columns[ci].target != t2.columns[ci].target {
						same = false
					}
				}
				ok = ok && !same
			}
			// relationIDs describe the relation columns
			nrel := 0
			for ci := range t.columns {
				if t.columns[ci].isRelation {
					nrel++
				}
			}
			ok = ok && len(t.relationIDs) == nrel
			for _, rel := range t.relationIDs {
				col := t.components[rel.component.id]
				ok = ok && col != nil && col.isRelation && col.target == rel.target
			}
		}
		// the indices list only active tables of this archetype, under the right target, once
		for ci := range a.relationTables {
			if !a.isRelation[ci] {
				continue
			}
			for key, lst := range a.relationTables[ci] {
				ok = ok && len(lst.tables) == len(lst.indices)
				for p, tid := range lst.tables {
					t := &s.tables[tid]
					ok = ok && t.archetype == a.id && !t.isFree && t.columns[ci].target.id == key
					idx, found := lst.indices[tid]
					ok = ok && found && int(idx) == p
				}
			}
		}
		for key, lst := range a.targetTables {
			ok = ok && len(lst.tables) == len(lst.indices)
			for _, tid := range lst.tables {
				t := &s.tables[tid]
				has := false
				for ci := range t.columns {
					if t.columns[ci].isRelation && t.columns[ci].target.id == key {
						has = true
					}
				}
				ok = ok && t.archetype == a.id && !t.isFree && has
			}
		}
	}
	return ok
}

// I-zero: component cells in rows >= len are zero (what an uninitialised add will expose).
func invZero(W *vWorld) bool {
	s := &W.w.storage
	ok := true
	for ti := range s.tables {
		t := &s.tables[ti]
		for r := t.len; r < t.cap; r++ {
			if c := t.components[W.id[cA].id]; c != nil {
				ok = ok && *(*vPos)(c.Get(uintptr(r))) == vPos{}
			}
			if c := t.components[W.id[cB].id]; c != nil {
				ok = ok && *(*vVel)(c.Get(uintptr(r))) == vVel{}
			}
			if c := t.components[W.id[cP].id]; c != nil {
				ok = ok && *(*vPtrC)(c.Get(uintptr(r))) == vPtrC{}
			}
			if c := t.components[W.id[cR2].id]; c != nil {
				ok = ok && (*vChild2)(c.Get(uintptr(r))).W == 0
			}
		}
	}
	return ok
}

// I-registry: the registry is a bijection between the first Count ids and their types, and the
// per-id flags are those computed from the type.
func invRegistry(w *World) bool {
	r := &w.storage.registry
	n := len(r.Components)
	ok := len(r.IDs) == n && len(w.storage.components) == n && len(w.storage.componentIndex) == n
	for i := 0; i < maskTotalBits; i++ {
		used := r.Used.Get(uint8(i))
		ok = ok && used == (i < n)
		if i < n {
			tp := r.Types[i]
			ok = ok && tp != nil && r.IDs[i] == uint8(i)
			if tp != nil {
				id, found := r.Components[tp]
				ok = ok && found && int(id) == i && r.IsRelation[i] == isRelation(tp)
			}
		} else {
			ok = ok && r.Types[i] == nil && !r.IsRelation[i]
		}
	}
	return ok
}

// I-pool (world level): the free chain has exactly `available` distinct slots, none of which
// sits in a table row; slots = reserved + rows + free.
func invPoolWorld(w *World) bool {
	s := &w.storage
	p := &s.entityPool
	ok := int(p.available) <= len(p.entities)-reservedEntities && p.Len() >= 0
	cur := p.next
	var seen [64]bool
	for k := uint32(0); k < p.available && k < 64; k++ {
		ok = ok && int(cur) >= reservedEntities && int(cur) < len(p.entities)
		if int(cur) >= len(p.entities) || int(cur) >= 64 {
			return false
		}
		ok = ok && !seen[cur]
		seen[cur] = true
		// a free slot is not alive under the generation it carries minus one, and is in no row
		ok = ok && s.entities[cur].table == maxTableID
		cur = p.entities[cur].id
	}
	return ok
}

// I-cache: every registered entry lists exactly the active tables whose archetype matches the
// entry's filter and whose relation columns carry the entry's targets, each once.
func invCache(w *World) bool {
	s := &w.storage
	c := &s.cache
	ok := len(c.filters) == len(c.indices)
	for pos, e := range c.filters {
		ok = ok && e != nil
		if e == nil {
			continue
		}
		idx, found := c.indices[e.id]
		ok = ok && found && idx == pos && e.filter != nil && e.filter.cache == e.id
		ok = ok && len(e.tables.tables) == len(e.tables.indices)
		for ti := range s.tables {
			t := &s.tables[ti]
			a := &s.archetypes[t.archetype]
			want := !t.isFree && vSubset(&e.filter.mask, &a.mask) && (!e.filter.hasWithout || vDisjoint(&e.filter.without, &a.mask))
			if want && len(t.relationIDs) > 0 {
				for _, rel := range e.relations {
					col := t.components[rel.component.id]
					want = want && col != nil && col.target == rel.target
				}
			}
			n := 0
			for _, tid := range e.tables.tables {
				if tid == t.id {
					n++
				}
			}
			if want {
				ok = ok && n == 1
			} else {
				ok = ok && n == 0
			}
		}
	}
	return ok
}

func (W *vWorld) checkAll(tag string) {
	vcheck(tag+"/model-agrees", vpure(func() bool { return W.agree() }))
	vcheck(tag+"/inv-world", vpure(func() bool { return invWorld(W.w) }))
	vcheck(tag+"/inv-relations", vpure(func() bool { return invRelations(W.w) }))
	vcheck(tag+"/inv-zero", vpure(func() bool { return invZero(W) }))
	vcheck(tag+"/inv-registry-pool-cache", vpure(func() bool { return invRegistry(W.w) && invPoolWorld(W.w) && invCache(W.w) }))
	if !vLocked {
		lk := &W.w.storage.locks
		vcheck(tag+"/all-lock-bits-returned", lk.locks.bits == 0 && lk.bitPool.available == lk.bitPool.length)
	}
	vcheck(tag+"/lock-state", W.w.IsLocked() == vLocked)
}

// standingFilters registers cached filters that stay registered for the rest of the harness:
// every structural operation of every step harness then also maintains the filter cache
// (tables added / freed / recycled), which invCache characterises exactly.
func (W *vWorld) standingFilters(rel bool) {
	W.standing[0] = NewFilter1[vPos](W.w).Register()
	NewFilter2[vPos, vVel](W.w).Without(C[vTag]()).Register()
	W.nStanding = 2
	if rel {
		NewFilter1[vChild](W.w).Register()
		NewFilter2[vChild, vChild2](W.w).Relations(RelIdx(0, W.e[0].h)).Register() // fixed target p0 on R1 of the two-relation archetypes
		NewFilter1[vChild2](W.w).Relations(RelIdx(0, W.e[1].h)).Register()
		W.nStanding = 5
	}
}
