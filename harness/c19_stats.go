//go:build verif

package ecs

import "github.com/mlange-42/ark/ecs/stats"

// ---- C19: statistics agree with the world; incrementally updated statistics equal
// freshly computed ones, whatever happened (and whenever Stats was called) in between.

type vStatsCopy struct {
	ent     stats.Entities
	mem     int
	memUsed int
	filters int
	obs     int
	locked  bool
	ncomp   int
	arch    []stats.Archetype
	tables  [][]stats.Table
	compIDs [][]uint8
}

func vCopyStats(s *stats.World) *vStatsCopy {
	c := &vStatsCopy{ent: s.Entities, mem: s.Memory, memUsed: s.MemoryUsed, filters: s.CachedFilters, obs: s.Observers, locked: s.Locked, ncomp: len(s.ComponentTypes)}
	for i := range s.Archetypes {
		a := s.Archetypes[i]
		c.arch = append(c.arch, a)
		c.tables = append(c.tables, append([]stats.Table{}, a.Tables...))
		c.compIDs = append(c.compIDs, append([]uint8{}, a.ComponentIDs...))
	}
	return c
}

func vStatsEqual(a, b *vStatsCopy) bool {
	ok := a.ent == b.ent && a.mem == b.mem && a.memUsed == b.memUsed && a.filters == b.filters && a.obs == b.obs && a.locked == b.locked && a.ncomp == b.ncomp
	ok = ok && len(a.arch) == len(b.arch)
	if len(a.arch) != len(b.arch) {
		return false
	}
	for i := range a.arch {
		x, y := &a.arch[i], &b.arch[i]
		ok = ok && x.Size == y.Size && x.Capacity == y.Capacity && x.NumRelations == y.NumRelations && x.Memory == y.Memory &&
			x.MemoryUsed == y.MemoryUsed && x.MemoryPerEntity == y.MemoryPerEntity && x.FreeTables == y.FreeTables
		ok = ok && len(a.tables[i]) == len(b.tables[i]) && len(a.compIDs[i]) == len(b.compIDs[i])
		if len(a.tables[i]) != len(b.tables[i]) || len(a.compIDs[i]) != len(b.compIDs[i]) {
			return false
		}
		for k := range a.tables[i] {
			ok = ok && a.tables[i][k] == b.tables[i][k]
		}
		for k := range a.compIDs[i] {
			ok = ok && a.compIDs[i][k] == b.compIDs[i][k]
		}
	}
	return ok
}

// absolute laws of the property statement, against the real storage and the model
func (W *vWorld) statsLaws(c *vStatsCopy) bool {
	s := &W.w.storage
	nAlive := 0
	for i := 0; i < W.n; i++ {
		if W.e[i].alive {
			nAlive++
		}
	}
	ok := c.ent.Used == nAlive && c.ent.Total == c.ent.Used+c.ent.Recycled && c.ent.Total <= c.ent.Capacity
	ok = ok && c.locked == W.w.IsLocked() && c.filters == len(s.cache.filters) && c.obs == int(s.observers.totalCount)
	ok = ok && len(c.arch) == len(s.archetypes)
	sumArch, mem, memUsed := 0, 0, 0
	for i := range c.arch {
		a := &c.arch[i]
		sumArch += a.Size
		sumT, capT, memT, usedT := 0, 0, 0, 0
		perEntity := int(entitySize)
		for _, id := range c.compIDs[i] {
			tp, _ := s.registry.ComponentType(id)
			perEntity += int(tp.Size())
		}
		ok = ok && a.MemoryPerEntity == perEntity
		ok = ok && len(c.tables[i]) == len(s.archetypes[i].tables.tables)
		for k := range c.tables[i] {
			t := c.tables[i][k]
			if k < len(s.archetypes[i].tables.tables) {
				rt := &s.tables[s.archetypes[i].tables.tables[k]]
				ok = ok && t.Size == int(rt.len) && t.Capacity == int(rt.cap)
			}
			ok = ok && t.Size <= t.Capacity && t.Memory == t.Capacity*perEntity && t.MemoryUsed == t.Size*perEntity
			sumT += t.Size
			capT += t.Capacity
			memT += t.Memory
			usedT += t.MemoryUsed
		}
		for _, ft := range s.archetypes[i].freeTables {
			capT += int(s.tables[ft].cap)
			memT += int(s.tables[ft].cap) * perEntity
		}
		ok = ok && a.Size == sumT && a.Capacity == capT && a.Memory == memT && a.MemoryUsed == usedT && a.FreeTables == len(s.archetypes[i].freeTables)
		mem += a.Memory
		memUsed += a.MemoryUsed
		for j := i + 1; j < len(c.arch); j++ { // no two archetypes with the same component set
			same := len(c.compIDs[i]) == len(c.compIDs[j])
			if same {
				for k := range c.compIDs[i] {
					same = same && c.compIDs[i][k] == c.compIDs[j][k]
				}
			}
			ok = ok && !same
		}
	}
	ok = ok && sumArch == c.ent.Used
	ok = ok && c.memUsed == memUsed+c.ent.Used*int(entityIndexSize+entitySize)
	ok = ok && c.mem == mem+cap(s.entities)*int(entityIndexSize)+c.ent.Capacity*int(entitySize)
	return ok
}

func vStatsScenario(kind int) {
	W := vShapeFor(kind)
	op := -1
	if kind == 0 {
		op = []int{0, 1, 2, 3, 5, 6, 8}[vPick("op", 7)]
	}
	// add / remove / exchange with ALL their choices (component lists in every order: new
	// archetypes and graph nodes appear) are run with Stats called before and not in between
	full := op >= 1 && op <= 3
	first := full || vPick("stats-called-before", 2) == 1
	if first {
		W.w.Stats() // the stats object now holds (soon stale) figures
	}
	if kind == 1 {
		W.cacheScenario(vPick("scenario", 10))
	} else {
		vMode = 1
		W.applyOp(op, "op")
	}
	if !full && vPick("stats-called-between", 2) == 1 {
		W.w.Stats()
		if kind == 1 {
			W.cacheScenario(vPick("scenario2", 10))
		}
	}
	inc := vCopyStats(W.w.Stats())
	vcheck("laws", vpure(func() bool { return W.statsLaws(inc) }))
	W.w.stats = &stats.World{}
	fresh := vCopyStats(W.w.Stats())
	vcheck("incremental-equals-fresh", vpure(func() bool { return vStatsEqual(inc, fresh) }))
	vreach("end")
}

func VerifC19_StatsPlain() { vStatsScenario(0) }
func VerifC19_StatsRel()   { vStatsScenario(1) }

// ---- "filter, observer and lock figures match what is registered": the figures are
// compared with ghost counts kept by the harness over every history of register /
// unregister / open / close steps (not with the library's own counters).
func vRegisteredFigures(steps int, evts []EventType) {
	W := vNewWorld(1, 1, 0)
	w := W.w
	W.create([]int{cA}, Entity{}, Entity{})
	W.create([]int{cA, cB}, Entity{}, Entity{})
	var obs [3]*Observer
	var obsReg [3]bool
	nObs := 0
	f1 := NewFilter1[vPos](w)
	f2 := NewFilter2[vPos, vVel](w)
	var fReg [2]bool
	var q [2]Query1[vPos]
	var qOpen [2]bool
	nComp := len(w.storage.registry.Components)
	vcheck("six-types-registered", nComp == 6)
	count := func(b []bool) int {
		n := 0
		for _, x := range b {
			if x {
				n++
			}
		}
		return n
	}
	figures := func(l string) {
		st := w.Stats()
		vcheck(l+"/observers-figure", st.Observers == count(obsReg[:]))
		vcheck(l+"/filters-figure", st.CachedFilters == count(fReg[:]))
		vcheck(l+"/locked-figure", st.Locked == (count(qOpen[:]) > 0) && w.IsLocked() == st.Locked)
		vcheck(l+"/component-types-figure", len(st.ComponentTypes) == nComp && len(st.ComponentTypeNames) == nComp)
	}
	for s := 0; s < steps; s++ {
		switch vPick("action", 7) {
		case 6: // a component type registered between Stats calls, without any new archetype
			if count(qOpen[:]) == 0 {
				TypeID(w, vNthType(2000+nComp))
				nComp++
			}
		case 0:
			if nObs < len(obs) {
				obs[nObs] = Observe(evts[vPick("evt", len(evts))]).Do(func(Entity) {}).Register(w)
				obsReg[nObs] = true
				nObs++
			}
		case 1:
			if k := vPick("obs", len(obs)); obsReg[k] {
				obs[k].Unregister(w)
				obsReg[k] = false
			}
		case 2:
			if k := vPick("filter", 2); !fReg[k] {
				if k == 0 {
					f1.Register()
				} else {
					f2.Register()
				}
				fReg[k] = true
			}
		case 3:
			if k := vPick("filter", 2); fReg[k] {
				if k == 0 {
					f1.Unregister()
				} else {
					f2.Unregister()
				}
				fReg[k] = false
			}
		case 4:
			if k := vPick("query", 2); !qOpen[k] {
				q[k] = f1.Query()
				qOpen[k] = true
			}
		case 5:
			if k := vPick("query", 2); qOpen[k] {
				q[k].Close()
				qOpen[k] = false
			}
		}
		figures("step")
	}
	for k := range q {
		if qOpen[k] {
			q[k].Close()
			qOpen[k] = false
		}
	}
	w.Reset() // un-registers all cached filters and observers
	W.n = 0
	obsReg, fReg = [3]bool{}, [2]bool{}
	figures("after-reset")
	q[0], q[1] = f1.Query(), f1.Query()
	qOpen[0], qOpen[1] = true, true
	figures("after-reset-two-queries-open")
	q[1].Close()
	qOpen[1] = false
	figures("after-reset-inner-query-closed")
	q[0].Close()
	qOpen[0] = false
	figures("after-reset-all-closed")
	Observe(OnAddComponents).Do(func(Entity) {}).Register(w)
	obsReg[0] = true
	figures("after-reset-and-register")
	vreach("end")
}

func VerifC19_RegisteredFigures() {
	vRegisteredFigures(3, []EventType{OnCreateEntity, OnRemoveEntity, OnAddComponents, 0})
}
func VerifC19T_RegisteredFigures() {
	vNoMul = true
	vRegisteredFigures(3, []EventType{OnCreateEntity, OnRemoveEntity, OnAddComponents, OnRemoveComponents, OnSetComponents, OnAddRelations, OnRemoveRelations, 0, customEvent})
}
