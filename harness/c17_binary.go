//go:build verif

package ecs

// ---- C17-H2: binary codec over all 2^64 handles and all inputs of length 0..12.

func VerifC17_BinaryRoundTrip() {
	e := Entity{entityID(vU32("id")), vU32("gen")}
	data, err := e.MarshalBinary()
	vcheck("marshal-no-error", err == nil)
	vcheck("len8", len(data) == 8)
	var d Entity
	err2 := d.UnmarshalBinary(data)
	vcheck("unmarshal-no-error", err2 == nil)
	vcheck("roundtrip", d == e)
	vcheck("source-unchanged", e.id == entityID(e.ID()) && e.gen == e.Gen())
	// big endian layout
	vcheck("layout", data[0] == byte(uint32(e.id)>>24) && data[3] == byte(e.id) && data[4] == byte(e.gen>>24) && data[7] == byte(e.gen))
	vreach("end")
}

// AppendBinary onto a buffer of arbitrary content, prefix length 0..12 and spare capacity
// 0..16 (below, at and above the 8 bytes a handle needs): prefix kept, handle decodable,
// equals MarshalBinary; two handles appended in a row both survive.
func VerifC17_AppendBinary() {
	e := Entity{entityID(vU32("id")), vU32("gen")}
	e2 := Entity{entityID(vU32("id2")), vU32("gen2")}
	n := []int{0, 3, 8, 12}[vPick("prefix-len", 4)]
	spare := []int{0, 4, 7, 8, 9, 16}[vPick("spare-capacity", 6)]
	buf := make([]byte, n+spare)
	for i := range buf { // also the spare region holds arbitrary stale bytes
		buf[i] = vU8("b")
	}
	var pre [12]byte
	copy(pre[:], buf[:n])
	out, err := e.AppendBinary(buf[:n])
	vcheck("no-error", err == nil)
	vcheck("len", len(out) == n+8)
	// two results of MarshalBinary held at the same time stay independent
	mb1, _ := e.MarshalBinary()
	mb2, _ := e2.MarshalBinary()
	var m1, m2 Entity
	vcheck("two-marshal-results-independent", m1.UnmarshalBinary(mb1) == nil && m2.UnmarshalBinary(mb2) == nil && m1 == e && m2 == e2)
	keep := true
	for i := 0; i < n; i++ {
		keep = keep && out[i] == pre[i]
	}
	vcheck("prefix-kept", keep)
	var d Entity
	vcheck("decode", d.UnmarshalBinary(out[n:]) == nil && d == e)
	m, _ := e.MarshalBinary()
	same := true
	for i := 0; i < 8; i++ {
		same = same && m[i] == out[n+i]
	}
	vcheck("append-equals-marshal", same)
	out2, err2 := e2.AppendBinary(out)
	var d1, d2 Entity
	vcheck("second-append", err2 == nil && len(out2) == n+16 &&
		d1.UnmarshalBinary(out2[n:n+8]) == nil && d1 == e && d2.UnmarshalBinary(out2[n+8:]) == nil && d2 == e2)
	vreach("end")
}

func VerifC17_BinaryRejectLen() {
	n := int(vconcrete(uint32(vU8("n")) % 41)) // every length 0..40 except 8 (also the multiples of 8)
	vassume(n != 8)
	data := make([]byte, n)
	for i := range data {
		data[i] = vU8("b")
	}
	e := Entity{entityID(vU32("id")), vU32("gen")}
	old := e
	err := e.UnmarshalBinary(data)
	vcheck("rejected", err != nil)
	vcheck("entity-unchanged", e == old)
	vreach("end")
}

// JSON codec of entity handles. encoding/json itself is modelled as an ideal codec for the
// value handed to Marshal (an opaque blob that Unmarshal restores); what is decided is the
// library code around it for all 2^64 handles.
func VerifC17_JSONRoundTrip() {
	e := Entity{entityID(vU32("id")), vU32("gen")}
	data, err := e.MarshalJSON()
	vcheck("marshal-no-error", err == nil)
	var d Entity
	err2 := d.UnmarshalJSON(data)
	vcheck("unmarshal-no-error", err2 == nil)
	vcheck("roundtrip", d == e)
	old := Entity{entityID(vU32("old.id")), vU32("old.gen")}
	keep := old
	vcheck("garbage-rejected", old.UnmarshalJSON([]byte{1, 2, 3}) != nil)
	vcheck("entity-unchanged-on-error", old == keep)
	vreach("end")
}
