//go:build verif

package ecs

// ---- C17-H2: binary codec over all 2^64 handles and all inputs of length 0..12.

func VerifC17_BinaryRoundTrip() {
	e := Entity{entityID(vU32("id")), vU32("gen")}
	data, err := e.MarshalBinary()
	vcheck("marshal-no-error", err == nil)
	vcheck("len8", len(data) == 8)
	var d Entity
	err2 := d.UnmarshalBinary(data)
	vcheck("unmarshal-no-error", err2 == nil)
	vcheck("roundtrip", d == e)
	vcheck("source-unchanged", e.id == entityID(e.ID()) && e.gen == e.Gen())
	// big endian layout
	vcheck("layout", data[0] == byte(uint32(e.id)>>24) && data[3] == byte(e.id) && data[4] == byte(e.gen>>24) && data[7] == byte(e.gen))
	vreach("end")
}

func VerifC17_AppendBinary() {
	e := Entity{entityID(vU32("id")), vU32("gen")}
	pre := []byte{vU8("p0"), vU8("p1"), vU8("p2")}
	p0, p1, p2 := pre[0], pre[1], pre[2]
	out, err := e.AppendBinary(pre)
	vcheck("no-error", err == nil)
	vcheck("len", len(out) == 11)
	vcheck("prefix-kept", out[0] == p0 && out[1] == p1 && out[2] == p2)
	var d Entity
	vcheck("decode", d.UnmarshalBinary(out[3:]) == nil && d == e)
	m, _ := e.MarshalBinary()
	same := true
	for i := 0; i < 8; i++ {
		same = same && m[i] == out[3+i]
	}
	vcheck("append-equals-marshal", same)
	vreach("end")
}

func VerifC17_BinaryRejectLen() {
	n := int(vconcrete(uint32(vU8("n")) % 13))
	vassume(n != 8)
	data := make([]byte, n)
	for i := range data {
		data[i] = vU8("b")
	}
	e := Entity{entityID(vU32("id")), vU32("gen")}
	old := e
	err := e.UnmarshalBinary(data)
	vcheck("rejected", err != nil)
	vcheck("entity-unchanged", e == old)
	vreach("end")
}

// JSON codec of entity handles. encoding/json itself is modelled as an ideal codec for the
// value handed to Marshal (an opaque blob that Unmarshal restores); what is decided is the
// library code around it for all 2^64 handles.
func VerifC17_JSONRoundTrip() {
	e := Entity{entityID(vU32("id")), vU32("gen")}
	data, err := e.MarshalJSON()
	vcheck("marshal-no-error", err == nil)
	var d Entity
	err2 := d.UnmarshalJSON(data)
	vcheck("unmarshal-no-error", err2 == nil)
	vcheck("roundtrip", d == e)
	old := Entity{entityID(vU32("old.id")), vU32("old.gen")}
	keep := old
	vcheck("garbage-rejected", old.UnmarshalJSON([]byte{1, 2, 3}) != nil)
	vcheck("entity-unchanged-on-error", old == keep)
	vreach("end")
}
