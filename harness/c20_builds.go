//go:build verif

package ecs

// ---- C20: the same harnesses run under the four tag sets {}, {ark_tiny}, {ark_debug},
// {ark_tiny, ark_debug}. Each harness pins results and panic/no-panic completely (its
// checks are build-independent), so passing under all four builds means the builds are
// observably equivalent on everything the harness explores (component IDs < 64).

func VerifC20_MaskGetSetClear() { VerifC03_MaskGetSetClear() }
func VerifC20_MaskAlgebra()     { VerifC03_MaskAlgebra() }
func VerifC20_FilterMatches()   { VerifC03_FilterMatches() }
func VerifC20_FireAdd()         { vFireAddRemove(2, OnAddComponents, true) }
func VerifC20_FireRemove()      { vFireAddRemove(2, OnRemoveComponents, false) }

func vShapeLowIDs(kind int) *vWorld {
	if kind == 0 {
		W := vShapePlain(1, 3, 1)
		vTighten(W.w)
		return W
	}
	W := vShapeRel(1, 3, true, 1)
	vTighten(W.w)
	return W
}

// operations and queries on shapes whose component IDs are 3..8
func VerifC20_StepRemoveEntity() {
	vMode = 0
	W := vShapeLowIDs(1)
	W.applyOp(5, "op")
}
func VerifC20_StepAdd() {
	vMode = 0
	W := vShapeLowIDs(0)
	W.applyOp(1, "op")
}
func VerifC20_StepExchange() {
	vMode = 0
	W := vShapeLowIDs(1)
	W.applyOp(3, "op")
}
func VerifC20_QueryWalk() {
	W := vShapeLowIDs(1)
	vUnsafeQueryWalk(W, W.arbQuerySpec(true), "walk")
	vreach("end")
}
func VerifC20_TypedQueryWalk() {
	W := vShapeLowIDs(0)
	vTypedQuery1Walk(W, W.arbQuerySpec(false), false, "walk")
	vreach("end")
}

// misuse calls: the debug build may only change panic MESSAGES, not which calls panic.
// Expected outcomes are those of the default build (docs/content/errors).
func VerifC20_Misuse() {
	W := vShapeLowIDs(0)
	mp := NewMap1[vPos](W.w)
	mv := NewMap1[vVel](W.w)
	// query access before Next, after exhaustion, after Close
	f := NewFilter1[vPos](W.w)
	q := f.Query()
	n := 0
	for q.Next() {
		n++
	}
	vcheck("misuse/next-after-exhaustion", vpanics(func() { q.Next() }) == vExpectPanic("next-after-exhaustion"))
	vcheck("misuse/entity-after-exhaustion", vpanics(func() { q.Entity() }) == vExpectPanic("entity-after-exhaustion"))
	vcheck("misuse/get-after-exhaustion", vpanics(func() { q.Get() }) == vExpectPanic("get-after-exhaustion"))
	q2 := f.Query()
	vcheck("misuse/get-before-next", vpanics(func() { q2.Get() }) == vExpectPanic("get-before-next"))
	q2.Close()
	vcheck("misuse/next-after-close", vpanics(func() { q2.Next() }) == vExpectPanic("next-after-close"))
	vcheck("misuse/unlocked", !W.w.IsLocked())
	// the same for an unsafe query that visited at least one table
	uq := NewUnsafeFilter(W.w, W.id[cA]).Query()
	for uq.Next() {
	}
	vcheck("misuse/unsafe-entity-after-exhaustion", vpanics(func() { uq.Entity() }) == vExpectPanic("unsafe-entity-after-exhaustion"))
	vcheck("misuse/unsafe-get-after-exhaustion", vpanics(func() { uq.Get(W.id[cA]) }) == vExpectPanic("unsafe-get-after-exhaustion"))
	vcheck("misuse/unsafe-next-after-exhaustion", vpanics(func() { uq.Next() }) == vExpectPanic("unsafe-next-after-exhaustion"))
	uq2 := NewUnsafeFilter(W.w, W.id[cA]).Query()
	uq2.Next()
	uq2.Close()
	vcheck("misuse/unsafe-entity-after-close", vpanics(func() { uq2.Entity() }) == vExpectPanic("unsafe-entity-after-close"))
	vcheck("misuse/unsafe-get-after-close", vpanics(func() { uq2.Get(W.id[cA]) }) == vExpectPanic("unsafe-get-after-close"))
	vcheck("misuse/unlocked-2", !W.w.IsLocked())
	// component access for a missing component
	var noVel Entity
	for i := 0; i < W.n; i++ {
		if W.e[i].alive && !W.e[i].has[cB] {
			noVel = W.e[i].h
		}
	}
	vcheck("misuse/get-missing-returns-nil", !vpanics(func() {
		if mv.Get(noVel) != nil {
			panic("non-nil")
		}
	}))
	vcheck("misuse/set-missing", vpanics(func() { mv.Set(noVel, &vVel{1}) }) == vExpectPanic("set-missing"))
	vcheck("misuse/map-set-missing", vpanics(func() { NewMap[vVel](W.w).Set(noVel, &vVel{1}) }) == vExpectPanic("set-missing"))
	vcheck("misuse/unsafe-get-missing", vpanics(func() { W.u.Get(noVel, W.id[cB]) }) == vExpectPanic("unsafe-get-missing"))
	vcheck("misuse/getrelation-missing", vpanics(func() { W.u.GetRelation(noVel, W.id[cR1]) }) == vExpectPanic("getrelation-missing"))
	_ = mp
	W.checkAll("misuse")
	vreach("end")
}

// vExpectPanic: outcome of the misuse call in the DEFAULT build (no tags); every other
// build has to agree. (Recorded from the default build; messages are ignored.)
func vExpectPanic(call string) bool {
	switch call {
	case "next-after-exhaustion", "entity-after-exhaustion", "next-after-close":
		return true
	case "unsafe-entity-after-exhaustion", "unsafe-get-after-exhaustion", "unsafe-next-after-exhaustion", "unsafe-entity-after-close", "unsafe-get-after-close":
		return true // the table pointer is cleared on Close: nil dereference in every build
	case "get-after-exhaustion", "get-before-next":
		return false // the default build hands out a nil-based pointer without panicking
	case "set-missing", "unsafe-get-missing", "getrelation-missing":
		return true
	}
	return false
}

// mappers and filters created early keep working when many more component types are
// registered later (40 types in total: within every build's limit)
func VerifC20_ManyComponents() { vManyComponents(36) }

func vManyComponents(nExtra int) {
	w := NewWorld(1)
	u := w.Unsafe()
	mp := NewMap1[vPos](w)
	mv := NewMap2[vPos, vVel](w)
	f := NewFilter1[vPos](w)
	extra := make([]ID, nExtra)
	for i := range extra {
		extra[i] = TypeID(w, vNthType(i+1))
	}
	x, y := vU32("x"), vU32("y")
	e0 := mp.NewEntity(&vPos{x, y})
	// a table created after all registrations, holding one of the late components
	e1 := u.NewEntity(ComponentID[vPos](w), extra[20], extra[nExtra-1])
	*(*vPos)(u.Get(e1, ComponentID[vPos](w))) = vPos{y, x}
	vcheck("early-mapper-sees-late-table", !vpanics(func() {
		if mp.Get(e1) == nil || *mp.Get(e1) != (vPos{y, x}) || *mp.Get(e0) != (vPos{x, y}) {
			panic("wrong data")
		}
	}))
	vcheck("early-mapper-adds", !vpanics(func() { NewMap1[vVel](w).Add(e1, &vVel{7}) }))
	a, b := mv.Get(e1)
	vcheck("early-map2-get", a != nil && b != nil && b.DX == 7 && *a == (vPos{y, x}))
	n := 0
	q := f.Query()
	for q.Next() {
		n++
	}
	vcheck("early-filter-iterates-late-tables", n == 2 && !w.IsLocked())
	vcheck("has-late-component", u.Has(e1, extra[nExtra-1]) && !u.Has(e0, extra[nExtra-1]))
	vreach("end")
}

// exactly 64 component types: the limit of the tiny build and a full first mask word of the default one
func VerifC20_SixtyFourComponents() { vManyComponents(62) }
