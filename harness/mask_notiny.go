//go:build verif && !ark_tiny

package ecs

func vFillMask(m *bitMask, l string) {
	for i := 0; i < 4; i++ {
		m.bits[i] = vU64(l)
	}
}
func vMaskWords(m *bitMask) [4]uint64 { return m.bits }
