//go:build verif

package ecs

// ---- C08-H1: every dispatcher == the documented predicate per observer, for all
// 256-bit masks, all flag combinations and all aggregate states allowed by I-obs.

const vObsMax = 3

type vObsSet struct {
	m     *observerManager
	obs   [vObsMax]*Observer
	count [vObsMax]int
	n     int
}

func vSubset(a, b *bitMask) bool { // a ⊆ b
	wa, wb := vMaskWords(a), vMaskWords(b)
	ok := true
	for i := 0; i < 4; i++ {
		ok = ok && wa[i]&^wb[i] == 0
	}
	return ok
}
func vDisjoint(a, b *bitMask) bool {
	wa, wb := vMaskWords(a), vMaskWords(b)
	ok := true
	for i := 0; i < 4; i++ {
		ok = ok && wa[i]&wb[i] == 0
	}
	return ok
}
func vMaskEmpty(a *bitMask) bool {
	w := vMaskWords(a)
	return w[0] == 0 && w[1] == 0 && w[2] == 0 && w[3] == 0
}
func vMaskEq(a, b *bitMask) bool {
	wa, wb := vMaskWords(a), vMaskWords(b)
	return wa[0] == wb[0] && wa[1] == wb[1] && wa[2] == wb[2] && wa[3] == wb[3]
}

func vIsEntityEvent(evt EventType) bool { return evt == OnCreateEntity || evt == OnRemoveEntity }

// invObs: I-obs for one event type.
func invObs(s *vObsSet, evt EventType) bool {
	m := s.m
	ok := len(m.observers[evt]) == s.n && m.hasObservers[evt] == (s.n > 0) && m.maxEventType >= evt && int(m.totalCount) == s.n
	anyNoComps, anyNoWith := false, false
	var unionComps, unionWith bitMask
	for i := 0; i < s.n; i++ {
		o := s.obs[i]
		ok = ok && m.observers[evt][i] == &o.observerData
		ok = ok && o.hasComps == !vMaskEmpty(&o.compsMask)
		ok = ok && o.hasWith == !vMaskEmpty(&o.withMask)
		ok = ok && (o.hasWithout || vMaskEmpty(&o.withoutMask))
		ok = ok && (!o.hasWithout || !vMaskEmpty(&o.withoutMask))
		if vIsEntityEvent(evt) {
			ok = ok && !o.hasComps
		}
		anyNoComps = anyNoComps || !o.hasComps
		anyNoWith = anyNoWith || !o.hasWith
		unionComps.OrI(&o.compsMask)
		unionWith.OrI(&o.withMask)
	}
	ok = ok && m.anyNoWith[evt] == anyNoWith
	ok = ok && (anyNoWith || vMaskEq(&m.allWith[evt], &unionWith))
	if vIsEntityEvent(evt) {
		ok = ok && !m.anyNoComps[evt] && vMaskEmpty(&m.allComps[evt])
	} else {
		ok = ok && m.anyNoComps[evt] == anyNoComps
		ok = ok && (anyNoComps || vMaskEq(&m.allComps[evt], &unionComps))
	}
	return ok
}

// vArbObservers builds an arbitrary I-obs state with n observers of type evt.
func vArbObservers(evt EventType, n int) *vObsSet {
	s := &vObsSet{m: newObserverManager(), n: n}
	m := s.m
	for i := 0; i < n; i++ {
		i := i
		o := Observe(evt)
		o.compsMask, o.withMask, o.withoutMask = vArbMask("comps"), vArbMask("with"), vArbMask("without")
		o.hasComps, o.hasWith, o.hasWithout = vBool("hasComps"), vBool("hasWith"), vBool("hasWithout")
		o.callback = func(Entity) { s.count[i]++ }
		o.id = m.pool.Get()
		m.indices[o.id] = uint32(i)
		m.observers[evt] = append(m.observers[evt], &o.observerData)
		s.obs[i] = o
	}
	m.hasObservers[evt] = n > 0
	m.maxEventType = evt
	m.totalCount = uint32(n)
	m.anyNoComps[evt], m.anyNoWith[evt] = vBool("anyNoComps"), vBool("anyNoWith")
	m.allComps[evt], m.allWith[evt] = vArbMask("allComps"), vArbMask("allWith")
	vassume(vpure(func() bool { return invObs(s, evt) }))
	return s
}

// doc predicate pieces
func vWithOK(o *Observer, comp *bitMask) bool {
	return (!o.hasWith || vSubset(&o.withMask, comp)) && (!o.hasWithout || vDisjoint(&o.withoutMask, comp))
}

func vCheckCounts(s *vObsSet, pred func(o *Observer) bool, res bool, hasRes bool) {
	anyFired := false
	for i := 0; i < s.n; i++ {
		o := s.obs[i]
		p := vpure(func() bool { return pred(o) })
		anyFired = anyFired || p
		exp := 0
		if p {
			exp = 1
		}
		vcheck("exact-fire", s.count[i] == exp)
	}
	if hasRes {
		vcheck("result-is-anyone-fired", res == anyFired)
	}
}

var vE = Entity{2, 0}

func vFireEntity(n int, evt EventType, rel bool) {
	s := vArbObservers(evt, n)
	mask := vArbMask("mask")
	early := vBool("earlyOut")
	var res bool
	vmerge(func() {
		switch {
		case evt == OnCreateEntity:
			res = s.m.FireCreateEntity(vE, &mask, early)
		case evt == OnRemoveEntity:
			res = s.m.FireRemoveEntity(vE, &mask, early)
		case evt == OnAddRelations:
			res = s.m.FireCreateEntityRel(vE, &mask, early)
		default:
			res = s.m.FireRemoveEntityRel(vE, &mask, early)
		}
	})
	vCheckCounts(s, func(o *Observer) bool {
		return (!o.hasComps || vSubset(&o.compsMask, &mask)) && vWithOK(o, &mask)
	}, res, true)
	vreach("end")
}

func vFireAddRemove(n int, evt EventType, add bool) {
	s := vArbObservers(evt, n)
	oldM, newM := vArbMask("old"), vArbMask("new")
	early := vBool("earlyOut")
	var res bool
	vmerge(func() {
		if add {
			res = s.m.FireAdd(evt, vE, &oldM, &newM, early)
		} else {
			res = s.m.FireRemove(evt, vE, &oldM, &newM, early)
		}
	})
	vCheckCounts(s, func(o *Observer) bool {
		compsOK := !o.hasComps
		if add { // all observed components are added together: C ⊆ new \ old
			compsOK = compsOK || (vSubset(&o.compsMask, &newM) && vDisjoint(&o.compsMask, &oldM))
		} else { // all observed components are removed together: C ⊆ old \ new
			compsOK = compsOK || (vSubset(&o.compsMask, &oldM) && vDisjoint(&o.compsMask, &newM))
		}
		return compsOK && vWithOK(o, &oldM)
	}, res, true)
	vreach("end")
}

// kind: 0 FireSet, 1 FireSetRelations, 2 FireCustom
func vFireSetLike(n int, evt EventType, kind int) {
	s := vArbObservers(evt, n)
	changed, ent := vArbMask("changed"), vArbMask("entity")
	early := vBool("earlyOut")
	var res bool
	vmerge(func() {
		switch kind {
		case 0:
			s.m.FireSet(vE, &changed, &ent)
		case 1:
			res = s.m.FireSetRelations(evt, vE, &changed, &ent, early)
		default:
			s.m.FireCustom(evt, vE, &changed, &ent)
		}
	})
	vCheckCounts(s, func(o *Observer) bool {
		return (!o.hasComps || vSubset(&o.compsMask, &changed)) && vWithOK(o, &ent)
	}, res, kind == 1)
	vreach("end")
}

func VerifC08_FireCreateEntity()    { vFireEntity(2, OnCreateEntity, false) }
func VerifC08_FireRemoveEntity()    { vFireEntity(2, OnRemoveEntity, false) }
func VerifC08_FireCreateEntityRel() { vFireEntity(2, OnAddRelations, true) }
func VerifC08_FireRemoveEntityRel() { vFireEntity(2, OnRemoveRelations, true) }
func VerifC08_FireAddComponents()   { vFireAddRemove(2, OnAddComponents, true) }
func VerifC08_FireAddRelations()    { vFireAddRemove(2, OnAddRelations, true) }
func VerifC08_FireRemoveComponents() {
	vFireAddRemove(2, OnRemoveComponents, false)
}
func VerifC08_FireRemoveRelations() { vFireAddRemove(2, OnRemoveRelations, false) }
func VerifC08_FireSet()             { vFireSetLike(2, OnSetComponents, 0) }
func VerifC08_FireSetRelationsAdd() { vFireSetLike(2, OnAddRelations, 1) }
func VerifC08_FireSetRelationsRem() { vFireSetLike(2, OnRemoveRelations, 1) }
func VerifC08_FireCustom() {
	vFireSetLike(2, EventType(vconcrete(uint32(vU8("evt"))%3)*124), 2) // custom types 0, 124, 248
}

// three symbolic observers: only the dispatchers whose query stays well inside the solver budget
// (the add/remove/relation dispatchers with three observers need 100–300+ s per query under load)
func VerifC08T_FireCreateEntity3() { vNoMul = true; vFireEntity(3, OnCreateEntity, false) }
func VerifC08T_FireSet3()          { vNoMul = true; vFireSetLike(3, OnSetComponents, 0) }
func VerifC08T_FireCustom3()       { vNoMul = true; vFireSetLike(3, 7, 2) }
