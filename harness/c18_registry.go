//go:build verif

package ecs

import "reflect"

// ---- C18: registries and the documented capacity.

var vByteType = reflect.TypeFor[byte]()

// vNthType returns pairwise distinct runtime types: [i]byte.
func vNthType(i int) reflect.Type { return reflect.ArrayOf(i, vByteType) }

func vRegistryWith(count int) registry {
	r := newRegistry()
	for i := 0; i < count; i++ {
		r.registerComponent(vNthType(i), maskTotalBits)
	}
	return r
}

// H2: toTypes is panic-free and returns the ascending list of set bits, for every
// registered count and every mask made of the lowest and highest registered ID
// (optional) plus one registered ID at a symbolic position.
func vToTypes(count int) {
	reg := vRegistryWith(count)
	var m bitMask
	var pos [3]uint8
	k := 0
	withEnds := vconcrete(uint32(vU8("ends"))%2) == 1 && count >= 3
	if withEnds {
		pos[k] = 0
		m.Set(0)
		k++
	}
	if count >= 3 || (count >= 1 && !withEnds) {
		p := vU8("pos")
		if withEnds {
			vassume(p > 0 && int(p) < count-1)
		} else {
			vassume(int(p) < count)
		}
		pos[k] = p
		m.Set(p)
		k++
	}
	if withEnds {
		pos[k] = uint8(count - 1)
		m.Set(uint8(count - 1))
		k++
	}
	// the element count toTypes allocates is popcount(mask); decided here once
	vcheckEqInt("popcount", m.TotalBitsSet(), k)
	var ids []ID
	panicked := vpanics(func() { vmerge(func() { ids = m.toTypes(&reg) }) })
	vcheck("no-panic", !panicked)
	if panicked {
		return
	}
	vcheck("len", len(ids) == k)
	okAsc := vpure(func() bool {
		ok := true
		for i := 0; i < len(ids); i++ {
			ok = ok && ids[i].id == pos[i]
		}
		return ok
	})
	vcheck("ascending-set-bits", okAsc)
	vreach("end")
}

func VerifC18_ToTypesLow() {
	vToTypes(int(vconcrete(uint32(vU8("count")) % 4)))
}
func vToTypesBoundary(counts []int) {
	sel := vconcrete(uint32(vU8("sel")) % uint32(len(counts)))
	c := counts[sel]
	if c > maskTotalBits {
		c = maskTotalBits - int(sel%3) // tiny build: 64, 63, 62
	}
	vToTypes(c)
}

// counts around word boundaries and the documented maximum
func VerifC18_ToTypesBoundary() { vToTypesBoundary([]int{64, 65, 255, 256}) }
func VerifC18T_ToTypesBoundary() {
	vNoMul = true
	vToTypesBoundary([]int{63, 127, 128, 129, 191, 192, 193})
}

// H1: registry step from a registry holding `count` types.
func vRegistryStep(count int) {
	r := vRegistryWith(count)
	// known type: same id, nothing changes
	if count > 0 {
		i := int(vconcrete(uint32(vU8("i")) % uint32(count)))
		id, isNew := r.ComponentID(vNthType(i))
		vcheck("stable-id", int(id) == i && !isNew && r.Count() == count)
	}
	// distinct registered types have distinct ids and Types/Used agree
	if count >= 2 {
		a, _ := r.ComponentID(vNthType(count - 1))
		b, _ := r.ComponentID(vNthType(count - 2))
		vcheck("distinct-ids", a != b)
		tp, used := r.ComponentType(a)
		vcheck("type-of-id", used && tp == vNthType(count-1))
	}
	// new type
	var id uint8
	var isNew bool
	panicked := vpanics(func() { id, isNew = r.ComponentID(vNthType(count)) })
	if count >= maskTotalBits {
		vcheck("overflow-panics", panicked)
		vcheck("overflow-no-id-consumed", r.Count() == count && len(r.IDs) == count)
		vreach("overflow")
		return
	}
	vcheck("no-panic", !panicked)
	vcheck("next-id", isNew && int(id) == count && r.Count() == count+1 && len(r.IDs) == count+1 && r.IDs[count] == id)
	tp, used := r.ComponentType(id)
	vcheck("registered", used && tp == vNthType(count))
	id2, isNew2 := r.ComponentID(vNthType(count))
	vcheck("idempotent", id2 == id && !isNew2)
	// unregisterLast gives the id back
	r.unregisterLastComponent()
	_, used2 := r.ComponentType(id)
	vcheck("unregistered", !used2 && r.Count() == count && len(r.IDs) == count)
	id3, isNew3 := r.ComponentID(vNthType(count + 1))
	vcheck("id-reused-after-unregister", isNew3 && id3 == id)
	vreach("end")
}

func VerifC18_RegistryStepLow() { vRegistryStep(int(vconcrete(uint32(vU8("count")) % 3))) }
func VerifC18_RegistryStepHigh() {
	sel := vconcrete(uint32(vU8("sel")) % 4)
	vRegistryStep(maskTotalBits - 2 + int(sel)%3)
}

// Registering a new component on a locked world panics and consumes no ID.
func VerifC18_LockedRegistration() {
	w := NewWorld(1)
	_ = ComponentID[vPos](w)
	// the most recently registered component is a relation in one variant
	relLast := vPick("relation-registered-last", 2) == 1
	if relLast {
		_ = ComponentID[vChild](w)
	}
	l := w.lock()
	before := w.storage.registry.Count()
	panicked := vpanics(func() { _ = ComponentID[vVel](w) })
	vcheck("locked-panics", panicked)
	vcheck("no-id-consumed", w.storage.registry.Count() == before && len(w.storage.components) == before && len(w.storage.registry.IDs) == before)
	_, used := w.storage.registry.ComponentType(uint8(before))
	vcheck("slot-unused", !used && !w.storage.registry.IsRelation[before])
	vcheck("registry-invariant-after-rejected-registration", vpure(func() bool { return invRegistry(w) }))
	if relLast {
		info, ok := ComponentInfo(w, ID{uint8(before - 1)})
		vcheck("previous-component-unchanged", ok && info.IsRelation)
	}
	// known components still resolve while locked
	vcheck("known-ok", !vpanics(func() { _ = ComponentID[vPos](w) }))
	w.unlock(l)
	id := ComponentID[vVel](w)
	vcheck("same-id-after-unlock", int(id.id) == before)
	vreach("end")
}

// H3: Resources behave as a map from id to value, for all 256 ids.
func VerifC18_Resources() {
	r := newResources()
	a, b := vU8("a"), vU8("b")
	vassume(int(a) < maskTotalBits && int(b) < maskTotalBits)
	x, y := new(int), new(int)
	has := func(i uint8) (h bool) { vmerge(func() { h = r.Has(ResID{i}) }); return }
	vcheck("empty", !has(a))
	vcheck("remove-missing-panics", vpanics(func() { vmerge(func() { r.Remove(ResID{a}) }) }))
	vcheck("add-no-panic", !vpanics(func() { vmerge(func() { r.Add(ResID{a}, x) }) }))
	vcheck("has", has(a))
	vcheck("double-add-panics", vpanics(func() { vmerge(func() { r.Add(ResID{a}, y) }) }))
	if b != a {
		vcheck("other-untouched", !has(b))
		vcheck("add2-no-panic", !vpanics(func() { vmerge(func() { r.Add(ResID{b}, y) }) }))
		vcheck("independent", has(a) && has(b))
	}
	vcheck("remove-no-panic", !vpanics(func() { vmerge(func() { r.Remove(ResID{a}) }) }))
	vcheck("removed", !has(a))
	if b != a {
		vcheck("other-kept", has(b))
	}
	r.reset()
	vcheck("reset", !has(b) && !has(a))
	vreach("end")
}

// mappers, filters and queries created while few types are registered keep working after
// the registry grew past one mask word (and, thorough, up to the documented maximum)
func VerifC18_EarlyMappersAcrossGrowth() { vManyComponents(70) }
func VerifC18T_EarlyMappersAtMaximum()   { vNoMul = true; vManyComponents(maskTotalBits - 2) }

// a component type registered late — when the world already has relation archetypes with
// several (and with freed) tables, registered filters and a full history — is usable at once
// in entities, mappers, filters and queries, and leaves everything else untouched
type vLate struct{ X, Y uint32 }

func VerifC18_LateRegistrationInUsedWorld() {
	vMode = 0
	W := vShapeFor(vPick("shape", 2))
	before := len(W.w.storage.registry.Components)
	idL := ComponentID[vLate](W.w)
	vcheck("next-id-assigned", int(idL.id) == before && ComponentID[vLate](W.w) == idL)
	mL := NewMap1[vLate](W.w)
	v := vLate{vU32("x"), vU32("y")}
	// onto an existing entity (new archetype / table next to the old ones) and back
	e := W.e[2].h
	vcheck("add-no-panic", !vpanics(func() { mL.Add(e, &v) }))
	vcheck("readable-through-mapper-and-ids", mL.Get(e) != nil && *mL.Get(e) == v && W.u.Has(e, idL) && (*vLate)(W.u.Get(e, idL)) == mL.Get(e))
	n := 0
	q := NewFilter1[vLate](W.w).Query()
	for q.Next() {
		n++
		vcheck("query-yields-it", q.Entity() == e && *q.Get() == v)
	}
	vcheck("query-count", n == 1 && !W.w.IsLocked())
	f := NewFilter1[vLate](W.w).Register()
	fresh := mL.NewEntity(&v) // a second entity in the new table, created through the registered path
	qc := f.Query()
	vcheck("registered-filter-counts", qc.Count() == 2)
	qc.Close()
	f.Unregister()
	W.w.RemoveEntity(fresh)
	vcheck("remove-no-panic", !vpanics(func() { mL.Remove(e) }))
	W.checkAll("after")
	vreach("end")
}

// the public type -> ID maps (components and resources): the generic and the reflective entry
// point agree, distinct types (structs, named interfaces, pointers, generic instances) get
// distinct IDs, the same type the same ID, and Resource[T] behaves as a map from type to value
type vIfaceA interface{ A() }
type vIfaceB interface{ B() }
type vGen[T any] struct{ v T }
type vImplA struct{ n int }

func (vImplA) A() {}

func VerifC18_TypeToIDMaps() {
	w := NewWorld(1)
	rids := [...]ResID{
		ResourceID[vRes](w), ResourceID[vIfaceA](w), ResourceID[vIfaceB](w), ResourceID[*vRes](w),
		ResourceID[vGen[int]](w), ResourceID[vGen[uint]](w), ResourceID[any](w),
	}
	rtypes := [...]reflect.Type{
		reflect.TypeFor[vRes](), reflect.TypeFor[vIfaceA](), reflect.TypeFor[vIfaceB](), reflect.TypeFor[*vRes](),
		reflect.TypeFor[vGen[int]](), reflect.TypeFor[vGen[uint]](), reflect.TypeFor[any](),
	}
	ok := true
	for i := range rids {
		ok = ok && int(rids[i].id) == i && ResourceTypeID(w, rtypes[i]) == rids[i]
		tp, found := ResourceType(w, rids[i])
		ok = ok && found && tp == rtypes[i]
	}
	vcheck("resource-ids-sequential-distinct-stable-and-agree-with-reflection", ok && ResourceID[vIfaceA](w) == rids[1] && len(ResourceIDs(w)) == len(rids))
	cids := [...]ID{ComponentID[vRes](w), ComponentID[vGen[int]](w), ComponentID[vGen[uint]](w), ComponentID[vImplA](w)}
	ctypes := [...]reflect.Type{reflect.TypeFor[vRes](), reflect.TypeFor[vGen[int]](), reflect.TypeFor[vGen[uint]](), reflect.TypeFor[vImplA]()}
	ok = true
	for i := range cids {
		ok = ok && int(cids[i].id) == i && TypeID(w, ctypes[i]) == cids[i]
	}
	vcheck("component-ids-sequential-distinct-stable-and-agree-with-reflection", ok && ComponentID[vGen[int]](w) == cids[1] && len(ComponentIDs(w)) == len(cids))
	// resources of interface type: one value per TYPE, independent of each other
	ra, rb := NewResource[vIfaceA](w), NewResource[vIfaceB](w)
	var va vIfaceA = vImplA{1}
	ra.Add(&va)
	vcheck("interface-resources-independent", ra.Has() && !rb.Has() && ra.Get() == &va)
	vcheck("second-add-of-the-same-type-panics", vpanics(func() { ra.Add(&va) }))
	ra.Remove()
	vcheck("removed", !ra.Has() && !rb.Has())
	vreach("end")
}
