//go:build verif && ark_tiny

package ecs

func vFillMask(m *bitMask, l string)  { m.bits = vU64(l) }
func vMaskWords(m *bitMask) [4]uint64 { return [4]uint64{m.bits, 0, 0, 0} }
