//go:build verif

package ecs

// ---- C08-H2: AddObserver / RemoveObserver keep I-obs (so that whether an observer
// fires never depends on which others are or were registered); C16: Reset clears all.

func invObsIndices(s *vObsSet) bool {
	ok := len(s.m.indices) == s.n
	for i := 0; i < s.n; i++ {
		idx, found := s.m.indices[s.obs[i].id]
		ok = ok && found && int(idx) == i && s.obs[i].id != maxObserverID
		for j := i + 1; j < s.n; j++ {
			ok = ok && s.obs[i].id != s.obs[j].id
		}
	}
	return ok
}

func vEvtChoice(l string) EventType {
	// one custom type and the built-in ones (248 custom, 249.. built-in, 255 highest)
	sel := vconcrete(uint32(vU8(l)) % 9)
	if sel == 8 {
		return 0
	}
	return EventType(248 + sel)
}

func vRemoveObserver(n int) {
	evt := vEvtChoice("evt")
	s := vArbObservers(evt, n)
	vassume(vpure(func() bool { return invObsIndices(s) }))
	k := int(vconcrete(uint32(vU8("k")) % uint32(n)))
	victim := s.obs[k]
	vcheck("no-panic", !vpanics(func() { s.m.RemoveObserver(victim) }))
	vcheck("victim-unregistered", victim.id == maxObserverID)
	// remaining set: the code swap-removes, so position k now holds the former last
	last := n - 1
	if k != last {
		s.obs[k] = s.obs[last]
	}
	s.obs[last] = nil
	s.n = n - 1
	vcheck("inv-after", vpure(func() bool { return invObs(s, evt) }))
	vcheck("indices-after", vpure(func() bool { return invObsIndices(s) }))
	vcheck("removing-again-panics", vpanics(func() { s.m.RemoveObserver(victim) }))
	vreach("end")
}

func VerifC08_RemoveObserver2()  { vRemoveObserver(2) }
func VerifC08T_RemoveObserver3() { vNoMul = true; vRemoveObserver(3) }

// AddObserver onto an arbitrary valid manager holding one observer of the same type.
func VerifC08_AddObserver() {
	w := NewWorld(1)
	idA, idB, idR := ComponentID[vPos](w), ComponentID[vVel](w), ComponentID[vChild](w)
	evt := vEvtChoice("evt")
	s := vArbObservers(evt, 1)
	vassume(vpure(func() bool { return invObsIndices(s) }))
	w.storage.observers = s.m
	o := Observe(evt)
	var wantComps, wantWith, wantWithout bitMask
	isRelEvt := evt == OnAddRelations || evt == OnRemoveRelations
	nonRel := false
	if vBool("forA") {
		o.For(C[vPos]())
		wantComps.Set(idA.id)
		nonRel = true
	}
	if vBool("forR") {
		o.For(C[vChild]())
		wantComps.Set(idR.id)
	}
	if vBool("withB") {
		o.With(C[vVel]())
		wantWith.Set(idB.id)
	}
	excl := vBool("exclusive")
	if excl {
		o.Exclusive()
	} else if vBool("withoutA") {
		o.Without(C[vPos]())
		wantWithout.Set(idA.id)
	}
	fired := 0
	o.Do(func(Entity) { fired++ })
	panicked := vpanics(func() { o.Register(w) })
	if isRelEvt && nonRel {
		vcheck("non-relation-comp-panics", panicked)
		vreach("rejected")
		return
	}
	vcheck("no-panic", !panicked)
	if panicked {
		return
	}
	if vIsEntityEvent(evt) { // For means With for entity events
		wantWith.OrI(&wantComps)
		wantComps = bitMask{}
	}
	if excl {
		wantWithout = wantWith.Not()
	}
	vcheck("masks", vMaskEq(&o.compsMask, &wantComps) && vMaskEq(&o.withMask, &wantWith) && vMaskEq(&o.withoutMask, &wantWithout))
	vcheck("flags", o.hasComps == !vMaskEmpty(&wantComps) && o.hasWith == !vMaskEmpty(&wantWith) && o.hasWithout == (excl || !vMaskEmpty(&wantWithout)))
	s.obs[1] = o
	s.n = 2
	vcheck("inv-after", vpure(func() bool { return invObs(s, evt) }))
	vcheck("indices-after", vpure(func() bool { return invObsIndices(s) }))
	vcheck("double-register-panics", vpanics(func() { o.Register(w) }))
	vreach("end")
}

// ---- C16: observerManager.Reset from an arbitrary valid state, for every event type 0..255.
func vResetObservers(n int) {
	evt := EventType(vconcrete(uint32(vU8("evt"))))
	s := vArbObservers(evt, n)
	vassume(vpure(func() bool { return invObsIndices(s) }))
	m := s.m
	m.Reset()
	vcheck("evt-has-observers-false", !m.hasObservers[evt])
	vcheck("evt-list-empty", len(m.observers[evt]) == 0)
	vcheck("evt-aggregates-zero", !m.anyNoComps[evt] && !m.anyNoWith[evt] && vMaskEmpty(&m.allComps[evt]) && vMaskEmpty(&m.allWith[evt]))
	vcheck("indices-empty", len(m.indices) == 0)
	vcheck("total-zero", m.totalCount == 0 && m.maxEventType == 0)
	vcheck("pool-reset", len(m.pool.pool) == 0 && m.pool.available == 0)
	for i := 0; i < n; i++ {
		vcheck("observer-unregistered", s.obs[i].id == maxObserverID)
	}
	// nobody fires any more
	mask := vArbMask("mask")
	if evt == OnRemoveEntity {
		vmerge(func() { s.m.FireRemoveEntity(vE, &mask, false) })
	} else {
		vmerge(func() { s.m.FireCustom(evt, vE, &mask, &mask) })
	}
	for i := 0; i < n; i++ {
		vcheck("no-fire-after-reset", s.count[i] == 0)
	}
	vreach("end")
}
func VerifC16_ResetObservers1() { vResetObservers(1) }
func VerifC16_ResetObservers2() { vResetObservers(2) }

// ---- C08-H4: an observer unregisters itself or another observer from inside its
// callback while the event is being dispatched: no panic, every observer that stays
// registered fires exactly once, and the manager invariant holds afterwards.
func VerifC08_UnregisterInCallback() {
	w := NewWorld(1)
	idA := ComponentID[vPos](w)
	_ = ComponentID[vVel](w)
	var obs [3]*Observer
	var fired [3]int
	var match [3]bool
	actor := vPick("actor", 3)   // the observer whose callback unregisters ...
	victim := vPick("victim", 3) // ... this observer
	for i := 0; i < 3; i++ {
		i := i
		obs[i] = Observe(OnCreateEntity).Do(func(Entity) {
			fired[i]++
			if i == actor && fired[i] == 1 {
				obs[victim].Unregister(w)
			}
		})
		// each observer's own condition holds for the created entity ({A}) or not
		switch vPick("condition", 4) {
		case 0:
			match[i] = true
		case 1:
			obs[i].With(C[vPos]())
			match[i] = true
		case 2:
			obs[i].With(C[vVel]())
		case 3:
			obs[i].Without(C[vPos]())
		}
		obs[i].Register(w)
	}
	if !match[actor] {
		return // the actor never runs: nothing is unregistered from inside a callback
	}
	u := w.Unsafe()
	vcheck("dispatch-no-panic", !vpanics(func() { u.NewEntity(idA) }))
	for i := 0; i < 3; i++ {
		want := 0
		if match[i] {
			want = 1
		}
		if i != victim {
			vcheck("remaining-observer-fires-iff-its-condition-holds", fired[i] == want)
		} else {
			vcheck("unregistered-observer-never-fires-without-its-condition", fired[i] <= want)
		}
	}
	vcheck("victim-unregistered", obs[victim].id == maxObserverID)
	// next event: exactly the remaining matching observers fire
	before := fired
	u.NewEntity(idA)
	for i := 0; i < 3; i++ {
		want := 0
		if match[i] && i != victim {
			want = 1
		}
		vcheck("second-event", fired[i]-before[i] == want)
	}
	vreach("end")
}

// ---- C08-H3 (batch dispatch): a batch operation over several tables and rows with two
// observers whose masks and flags are symbolic: observer i is called for entity e exactly
// once iff the documented predicate holds for e's transition — the "early-out only for
// the first entity of a table" optimisation must equal per-entity dispatch.
func vBatchDispatch(add bool, nObs int) {
	W := vShapePlain(1, 60, 1)
	vTighten(W.w)
	evt := OnAddComponents
	if !add {
		evt = OnRemoveComponents
	}
	s := vArbObservers(evt, nObs)
	vassume(vpure(func() bool { return invObsIndices(s) }))
	var count [2][vNE]int
	for i := 0; i < nObs; i++ {
		i := i
		s.obs[i].callback = func(e Entity) {
			if j := W.indexOf(e); j >= 0 {
				count[i][j]++
			}
		}
	}
	W.w.storage.observers = s.m
	var sel [vNE]bool
	var oldM, newM [vNE]bitMask
	if add { // add T to everything that has A but not T: tables {A}, {A,B}, {A,P}
		for j := 0; j < W.n; j++ {
			sel[j] = W.e[j].alive && W.e[j].has[cA] && !W.e[j].has[cT]
			oldM[j] = W.entMask(j)
			newM[j] = oldM[j]
			newM[j].Set(W.id[cT].id)
		}
		NewMap1[vTag](W.w).AddBatch(NewFilter1[vPos](W.w).Without(C[vTag]()).Batch(), &vTag{})
	} else { // remove A from everything that has it
		for j := 0; j < W.n; j++ {
			sel[j] = W.e[j].alive && W.e[j].has[cA]
			oldM[j] = W.entMask(j)
			newM[j] = oldM[j]
			newM[j].Clear(W.id[cA].id)
		}
		NewMap1[vPos](W.w).RemoveBatch(NewFilter1[vPos](W.w).Batch(), nil)
	}
	for i := 0; i < nObs; i++ {
		o := s.obs[i]
		for j := 0; j < W.n; j++ {
			if !sel[j] {
				vcheck("batch/unaffected-entity-not-reported", count[i][j] == 0)
				continue
			}
			j := j
			p := vpure(func() bool {
				compsOK := !o.hasComps
				if add {
					compsOK = compsOK || (vSubset(&o.compsMask, &newM[j]) && vDisjoint(&o.compsMask, &oldM[j]))
				} else {
					compsOK = compsOK || (vSubset(&o.compsMask, &oldM[j]) && vDisjoint(&o.compsMask, &newM[j]))
				}
				return compsOK && vWithOK(o, &oldM[j])
			})
			exp := 0
			if p {
				exp = 1
			}
			vcheck("batch/exact-fire-per-entity", count[i][j] == exp)
		}
	}
	vreach("end")
}
func VerifC08_BatchDispatchAdd()    { vBatchDispatch(true, 1) }
func VerifC08_BatchDispatchRemove() { vBatchDispatch(false, 1) }

// ---- C08-H3 (set relations): observers of specific relation components fire iff ALL
// their observed relations are in the set of relations whose target actually changed in
// this call (a relation passed with its current target is not changed).
func VerifC08_SetRelationsChangedSet() {
	W := vShapeRel(1, 60, false, 0)
	vTighten(W.w)
	// tracked entity 5 has R1 -> p0 and R2 -> p1
	e := W.e[5].h
	cand := [3]Entity{W.e[0].h, W.e[1].h, {}}
	t1 := cand[vPick("t1", 3)]
	t2 := cand[vPick("t2", 3)]
	var fired [2][4]int // [remove/add][For(R1), For(R2), For(R1,R2), wildcard]
	for k, evt := range [2]EventType{OnRemoveRelations, OnAddRelations} {
		k := k
		Observe(evt).For(C[vChild]()).Do(func(Entity) { fired[k][0]++ }).Register(W.w)
		Observe(evt).For(C[vChild2]()).Do(func(Entity) { fired[k][1]++ }).Register(W.w)
		Observe(evt).For(C[vChild](), C[vChild2]()).Do(func(Entity) { fired[k][2]++ }).Register(W.w)
		Observe(evt).Do(func(Entity) { fired[k][3]++ }).Register(W.w)
	}
	vcheck("no-panic", !vpanics(func() { W.u.SetRelations(e, RelID(W.id[cR1], t1), RelID(W.id[cR2], t2)) }))
	ch1, ch2 := W.e[5].tgt[0] != t1, W.e[5].tgt[1] != t2
	b := func(x bool) int {
		if x {
			return 1
		}
		return 0
	}
	for k := 0; k < 2; k++ {
		vcheck("for-R1-fires-iff-R1-changed", fired[k][0] == b(ch1))
		vcheck("for-R2-fires-iff-R2-changed", fired[k][1] == b(ch2))
		vcheck("for-both-fires-iff-both-changed", fired[k][2] == b(ch1 && ch2))
		vcheck("wildcard-fires-iff-any-changed", fired[k][3] == b(ch1 || ch2))
	}
	W.e[5].tgt = [2]Entity{t1, t2}
	W.checkAll("after")
	vreach("end")
}

// ---- batch operations with ONE observer registered alone: whether an observer fires must
// not depend on which other observers are registered — in particular not on the shortcuts a
// batch takes when some event type has no observers at all. Every (batch operation, observer
// specification) pair over the relation shape; expected count per entity from the model.
func VerifC08_BatchOpsSingleObserver() {
	vConcreteValues = true
	W := vShapeRel(1, 60, true, 0)
	vConcreteValues = false
	vTighten(W.w)
	p1 := W.e[1].h
	type spec struct {
		evt EventType
		c   int // observed component (-1: wildcard)
	}
	specs := [...]spec{
		{OnRemoveRelations, cR1}, {OnRemoveRelations, -1}, {OnRemoveRelations, cR2},
		{OnAddRelations, cR1}, {OnAddRelations, -1},
		{OnRemoveEntity, -1}, {OnCreateEntity, -1},
		{OnAddComponents, cB}, {OnAddComponents, -1},
		{OnRemoveComponents, cA}, {OnRemoveComponents, -1},
	}
	sp := specs[vPick("observer", len(specs))]
	var fired [vNE]int
	unlocked, strangers := 0, 0
	o := Observe(sp.evt)
	switch sp.c {
	case cR1:
		o = o.For(C[vChild]())
	case cR2:
		o = o.For(C[vChild2]())
	case cA:
		o = o.For(C[vPos]())
	case cB:
		o = o.For(C[vVel]())
	}
	o.Do(func(e Entity) {
		if !W.w.IsLocked() {
			unlocked++
		}
		if j := W.indexOf(e); j >= 0 {
			fired[j]++
		} else {
			strangers++
		}
	}).Register(W.w)
	op := vPick("batch-op", 5)
	var want [vNE]int
	for j := 0; j < W.n; j++ {
		m := &W.e[j]
		if op == 4 { // remove every entity with A: plain archetypes (created first) and relation archetypes mixed
			if m.alive && m.has[cA] && (sp.evt == OnRemoveEntity ||
				(sp.evt == OnRemoveRelations && ((sp.c == -1 && (m.has[cR1] || m.has[cR2])) || (sp.c == cR1 && m.has[cR1]) || (sp.c == cR2 && m.has[cR2])))) {
				want[j] = 1
			}
			continue
		}
		if !m.alive || !m.has[cR1] {
			continue
		}
		hit := sp.c == -1
		switch op {
		case 0: // retarget R1 -> p1: only entities whose target changes are affected
			if m.tgt[0] != p1 && (sp.evt == OnRemoveRelations || sp.evt == OnAddRelations) && (hit || sp.c == cR1) {
				want[j] = 1
			}
		case 1: // remove every entity with R1
			if sp.evt == OnRemoveEntity || (sp.evt == OnRemoveRelations && (hit || sp.c == cR1 || (sp.c == cR2 && m.has[cR2]))) {
				want[j] = 1
			}
		case 2: // add B where missing
			if !m.has[cB] && sp.evt == OnAddComponents && (hit || sp.c == cB) {
				want[j] = 1
			}
		case 3: // remove A where present
			if m.has[cA] && sp.evt == OnRemoveComponents && (hit || sp.c == cA) {
				want[j] = 1
			}
		}
	}
	vcheck("no-panic", !vpanics(func() {
		switch op {
		case 0:
			NewMap1[vChild](W.w).SetRelationsBatch(NewFilter1[vChild](W.w).Batch(), nil, RelIdx(0, p1))
		case 1:
			W.w.RemoveEntities(NewFilter1[vChild](W.w).Batch(), nil)
		case 2:
			NewMap1[vVel](W.w).AddBatch(NewFilter1[vChild](W.w).Without(C[vVel]()).Batch(), &vVel{9})
		case 3:
			NewMap1[vPos](W.w).RemoveBatch(NewFilter2[vChild, vPos](W.w).Batch(), nil)
		case 4:
			W.w.RemoveEntities(NewFilter1[vPos](W.w).Batch(), nil)
		}
	}))
	ok := true
	for j := 0; j < W.n; j++ {
		ok = ok && fired[j] == want[j]
	}
	vcheck("fires-exactly-per-documented-predicate-when-registered-alone", ok)
	vcheck("callbacks-locked-no-strangers", unlocked == 0 && strangers == 0)
	vcheck("unlocked-afterwards", !W.w.IsLocked())
	vreach("end")
}
