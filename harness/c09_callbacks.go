//go:build verif

package ecs

// ---- C09 (and the emission rules of C08): observers with CHECKING callbacks are
// registered for every built-in event type; inside each callback the reported entity
// must be alive, be the entity the operation affects, sit in exactly one table row,
// show the documented composition (old one for removals, new one otherwise) with
// readable, current values, and the lock state must be the documented one.

type vEvents struct {
	create, remEnt, add, rem, set, addRel, remRel int
}

type vCbState struct {
	armed   bool
	isNew   bool
	h       Entity
	pre     vEnt
	post    vEnt
	want    vEvents
	got     vEvents
	inBatch bool
}

func vB2I(b bool) int {
	if b {
		return 1
	}
	return 0
}

var vCb vCbState
var vObserversOn bool

// arm: the next operation affects tracked entity i; upd is its documented effect
func (W *vWorld) arm(i int, upd func(m *vEnt), want vEvents) {
	if !vObserversOn {
		return
	}
	vCb = vCbState{armed: true, h: W.e[i].h, pre: W.e[i], post: W.e[i], want: want}
	upd(&vCb.post)
}
func (W *vWorld) armNew(exp vEnt, want vEvents) {
	if !vObserversOn {
		return
	}
	vCb = vCbState{armed: true, isNew: true, pre: exp, post: exp, want: want}
}

// disarm: after the operation, exactly the documented events were emitted
func (W *vWorld) disarm(tag string) {
	if !vObserversOn {
		return
	}
	vcheck(tag+"/events-emitted-as-documented", vCb.got == vCb.want)
	vCb.armed = false
}

func (W *vWorld) rowsHolding(e Entity) int {
	n := 0
	q := NewFilter0(W.w).Query()
	for q.Next() {
		if q.Entity() == e {
			n++
		}
	}
	return n
}

func (W *vWorld) onEvent(evt EventType, e Entity) {
	removal := false
	switch evt {
	case OnCreateEntity:
		vCb.got.create++
	case OnRemoveEntity:
		vCb.got.remEnt++
		removal = true
	case OnAddComponents:
		vCb.got.add++
	case OnRemoveComponents:
		vCb.got.rem++
		removal = true
	case OnSetComponents:
		vCb.got.set++
	case OnAddRelations:
		vCb.got.addRel++
	case OnRemoveRelations:
		vCb.got.remRel++
		removal = true
	}
	if !vCb.armed {
		vcheck("cb/no-event-outside-an-operation", false)
		return
	}
	lockedBefore := W.w.IsLocked()
	vcheck("cb/entity-alive", W.w.Alive(e))
	if !vCb.isNew {
		vcheck("cb/is-the-affected-entity", e == vCb.h)
	} else {
		vcheck("cb/new-entity-is-fresh", W.indexOf(e) < 0 || W.e[W.indexOf(e)].h == e && W.indexOf(e) == W.n-1)
	}
	if !W.w.Alive(e) {
		return
	}
	vcheck("cb/exactly-once-in-a-query", W.rowsHolding(e) == 1)
	exp := &vCb.post
	if removal {
		exp = &vCb.pre
	}
	okComp := true
	for c := 0; c < vNC; c++ {
		okComp = okComp && W.u.Has(e, W.id[c]) == exp.has[c]
	}
	vcheck("cb/composition-as-documented", okComp)
	if okComp {
		okVal := true
		// values of components the entity had before and keeps / is about to lose
		if exp.has[cA] && vCb.pre.has[cA] && !vCb.isNew {
			okVal = okVal && *W.getPos(e) == exp.pos
		}
		if exp.has[cB] && vCb.pre.has[cB] && !vCb.isNew {
			okVal = okVal && *W.getVel(e) == vCb.pre.vel
		}
		if exp.has[cP] && vCb.pre.has[cP] && !vCb.isNew {
			okVal = okVal && *W.getPtr(e) == vCb.pre.ptr
		}
		if exp.has[cR1] {
			okVal = okVal && W.u.GetRelation(e, W.id[cR1]) == exp.tgt[0]
		}
		if exp.has[cR2] {
			okVal = okVal && W.u.GetRelation(e, W.id[cR2]) == exp.tgt[1]
		}
		vcheck("cb/values-and-targets-readable-and-current", okVal)
	}
	if removal || vCb.inBatch {
		vcheck("cb/world-locked-during-removal-or-batch-callback", lockedBefore)
	} else {
		vcheck("cb/caller-lock-state", !lockedBefore)
	}
}

func (W *vWorld) observeAll() {
	vObserversOn = true
	vCb = vCbState{}
	for _, evt := range []EventType{OnCreateEntity, OnRemoveEntity, OnAddComponents, OnRemoveComponents, OnSetComponents, OnAddRelations, OnRemoveRelations} {
		evt := evt
		Observe(evt).Do(func(e Entity) { W.onEvent(evt, e) }).Register(W.w)
	}
}

func vStepObserved(rel bool, op int) {
	vMode = 1
	vObserversOn = false
	var W *vWorld
	if rel {
		v := vRelVariants[vPick("variant", 2)]
		W = vShapeRel(1, 60, v[0] == 1, v[1])
	} else {
		W = vShapePlain(1, 60, 1)
	}
	vTighten(W.w)
	W.observeAll()
	W.applyOp(op, "op")
	vObserversOn = false
}

func VerifC09_PlainNew()          { vStepObserved(false, 0) }
func VerifC09_PlainAdd()          { vStepObserved(false, 1) }
func VerifC09_PlainRemove()       { vStepObserved(false, 2) }
func VerifC09_PlainExchange()     { vStepObserved(false, 3) }
func VerifC09_PlainRemoveEntity() { vStepObserved(false, 5) }
func VerifC09_PlainCopy()         { vStepObserved(false, 6) }
func VerifC09_PlainSet()          { vStepObserved(false, 7) }
func VerifC09_RelNew()            { vStepObserved(true, 0) }
func VerifC09_RelAdd()            { vStepObserved(true, 1) }
func VerifC09_RelRemove()         { vStepObserved(true, 2) }
func VerifC09_RelExchange()       { vStepObserved(true, 3) }
func VerifC09_RelSetRelations()   { vStepObserved(true, 4) }
func VerifC09_RelRemoveEntity()   { vStepObserved(true, 5) }
func VerifC09_RelCopy()           { vStepObserved(true, 6) }
