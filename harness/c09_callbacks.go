//go:build verif

package ecs

// ---- C09 (and the emission rules of C08): observers with CHECKING callbacks are
// registered for every built-in event type; inside each callback the reported entity
// must be alive, be the entity the operation affects, sit in exactly one table row,
// show the documented composition (old one for removals, new one otherwise) with
// readable, current values, and the lock state must be the documented one.

type vEvents struct {
	create, remEnt, add, rem, set, addRel, remRel int
}

type vCbState struct {
	armed   bool
	isNew   bool
	h       Entity
	pre     vEnt
	post    vEnt
	want    vEvents
	got     vEvents
	inBatch bool
}

func vB2I(b bool) int {
	if b {
		return 1
	}
	return 0
}

var vCb vCbState
var vObserversOn bool

// arm: the next operation affects tracked entity i; upd is its documented effect
func (W *vWorld) arm(i int, upd func(m *vEnt), want vEvents) {
	if !vObserversOn {
		return
	}
	vCb = vCbState{armed: true, h: W.e[i].h, pre: W.e[i], post: W.e[i], want: want}
	upd(&vCb.post)
}
func (W *vWorld) armNew(exp vEnt, want vEvents) {
	if !vObserversOn {
		return
	}
	vCb = vCbState{armed: true, isNew: true, pre: exp, post: exp, want: want}
}

// disarm: after the operation, exactly the documented events were emitted
func (W *vWorld) disarm(tag string) {
	if !vObserversOn {
		return
	}
	want := vCb.want
	if vOnlyEvt >= 0 { // a single observer is registered: only its event type can be counted
		w := [7]int{want.create, want.remEnt, want.add, want.rem, want.set, want.addRel, want.remRel}
		for k := range w {
			if k != vOnlyEvt {
				w[k] = 0
			}
		}
		want = vEvents{w[0], w[1], w[2], w[3], w[4], w[5], w[6]}
	}
	vcheck(tag+"/events-emitted-as-documented", vCb.got == want)
	vCb.armed = false
}

func (W *vWorld) rowsHolding(e Entity) int {
	n := 0
	q := NewFilter0(W.w).Query()
	for q.Next() {
		if q.Entity() == e {
			n++
		}
	}
	return n
}

func (W *vWorld) onEvent(evt EventType, e Entity) {
	removal := false
	switch evt {
	case OnCreateEntity:
		vCb.got.create++
	case OnRemoveEntity:
		vCb.got.remEnt++
		removal = true
	case OnAddComponents:
		vCb.got.add++
	case OnRemoveComponents:
		vCb.got.rem++
		removal = true
	case OnSetComponents:
		vCb.got.set++
	case OnAddRelations:
		vCb.got.addRel++
	case OnRemoveRelations:
		vCb.got.remRel++
		removal = true
	}
	if !vCb.armed {
		vcheck("cb/no-event-outside-an-operation", false)
		return
	}
	lockedBefore := W.w.IsLocked()
	vcheck("cb/entity-alive", W.w.Alive(e))
	if !vCb.isNew {
		vcheck("cb/is-the-affected-entity", e == vCb.h)
	} else {
		vcheck("cb/new-entity-is-fresh", W.indexOf(e) < 0 || W.e[W.indexOf(e)].h == e && W.indexOf(e) == W.n-1)
	}
	if !W.w.Alive(e) {
		return
	}
	vcheck("cb/exactly-once-in-a-query", W.rowsHolding(e) == 1)
	exp := &vCb.post
	if removal {
		exp = &vCb.pre
	}
	okComp := true
	for c := 0; c < vNC; c++ {
		okComp = okComp && W.u.Has(e, W.id[c]) == exp.has[c]
	}
	vcheck("cb/composition-as-documented", okComp)
	if okComp {
		okVal := true
		// values of components the entity had before and keeps / is about to lose
		if exp.has[cA] && vCb.pre.has[cA] && !vCb.isNew {
			okVal = okVal && *W.getPos(e) == exp.pos
		}
		if exp.has[cB] && vCb.pre.has[cB] && !vCb.isNew {
			okVal = okVal && *W.getVel(e) == vCb.pre.vel
		}
		if exp.has[cP] && vCb.pre.has[cP] && !vCb.isNew {
			okVal = okVal && *W.getPtr(e) == vCb.pre.ptr
		}
		if exp.has[cR1] {
			okVal = okVal && W.u.GetRelation(e, W.id[cR1]) == exp.tgt[0]
		}
		if exp.has[cR2] {
			okVal = okVal && W.u.GetRelation(e, W.id[cR2]) == exp.tgt[1]
		}
		vcheck("cb/values-and-targets-readable-and-current", okVal)
	}
	if removal || vCb.inBatch {
		vcheck("cb/world-locked-during-removal-or-batch-callback", lockedBefore)
	} else {
		vcheck("cb/caller-lock-state", !lockedBefore)
	}
}

func (W *vWorld) observeAll() {
	vObserversOn = true
	vCb = vCbState{}
	for k, evt := range []EventType{OnCreateEntity, OnRemoveEntity, OnAddComponents, OnRemoveComponents, OnSetComponents, OnAddRelations, OnRemoveRelations} {
		evt := evt
		if vOnlyEvt >= 0 && k != vOnlyEvt {
			continue
		}
		Observe(evt).Do(func(e Entity) { W.onEvent(evt, e) }).Register(W.w)
	}
}

// vOnlyEvt >= 0: only the observer of that event type (index into the list in observeAll) is
// registered — the emission decisions of an operation must not depend on the other observers
var vOnlyEvt = -1

// every single-entity operation with exactly one observer registered (C08: independence of
// the set of registered observers; the library takes shortcuts per event type without observers)
func vStepSingleObserver(rel bool, pickMax int) {
	vOnlyEvt = vPick("only-observer", 7)
	op := []int{0, 1, 2, 3, 4, 5, 6, 7}[vPick("op", 8)]
	vPickMax = pickMax
	vStepObserved(rel, op)
	vPickMax = 0
	vOnlyEvt = -1
}
func VerifC08_SingleObserverPlain()  { vStepSingleObserver(false, 3) }
func VerifC08_SingleObserverRel()    { vStepSingleObserver(true, 3) }
func VerifC08T_SingleObserverPlain() { vNoMul = true; vStepSingleObserver(false, 4) }
func VerifC08T_SingleObserverRel()   { vNoMul = true; vStepSingleObserver(true, 4) }

func vStepObserved(rel bool, op int) {
	vMode = 1
	vObserversOn = false
	var W *vWorld
	if rel {
		v := vRelVariants[vPick("variant", 2)]
		W = vShapeRel(1, 60, v[0] == 1, v[1])
	} else {
		W = vShapePlain(1, 60, 1)
	}
	vTighten(W.w)
	W.observeAll()
	W.applyOp(op, "op")
	vObserversOn = false
}

func VerifC09_PlainNew()          { vStepObserved(false, 0) }
func VerifC09_PlainAdd()          { vStepObserved(false, 1) }
func VerifC09_PlainRemove()       { vStepObserved(false, 2) }
func VerifC09_PlainExchange()     { vStepObserved(false, 3) }
func VerifC09_PlainRemoveEntity() { vStepObserved(false, 5) }
func VerifC09_PlainCopy()         { vStepObserved(false, 6) }
func VerifC09_PlainSet()          { vStepObserved(false, 7) }
func VerifC09_RelNew()            { vStepObserved(true, 0) }
func VerifC09_RelAdd()            { vStepObserved(true, 1) }
func VerifC09_RelRemove()         { vStepObserved(true, 2) }
func VerifC09_RelExchange()       { vStepObserved(true, 3) }
func VerifC09_RelSetRelations()   { vStepObserved(true, 4) }
func VerifC09_RelRemoveEntity()   { vStepObserved(true, 5) }
func VerifC09_RelCopy()           { vStepObserved(true, 6) }

// ---- batch phases: all removal callbacks observe "no entity of the batch changed yet",
// all other callbacks observe "all of them changed"; every reported entity is selected;
// each selected entity is reported exactly once per documented event; the world is locked.

type vBatchObs struct {
	W        *vWorld
	sel      [vNE]bool
	pre      [vNE]vEnt
	post     [vNE]vEnt
	count    [7][vNE]int
	failures int
}

func (b *vBatchObs) onEvent(evt EventType, e Entity) {
	W := b.W
	j := W.indexOf(e)
	if j < 0 || !b.sel[j] {
		vcheck("batch-cb/reported-entity-is-affected", false)
		return
	}
	b.count[evt-OnCreateEntity][j]++
	removal := evt == OnRemoveEntity || evt == OnRemoveComponents || evt == OnRemoveRelations
	vcheck("batch-cb/world-locked", W.w.IsLocked())
	vcheck("batch-cb/entity-alive", W.w.Alive(e))
	// phase: every selected entity shows the old (removal) or new (other) composition and target
	okPhase := true
	for k := 0; k < W.n; k++ {
		if !b.sel[k] {
			continue
		}
		if !W.w.Alive(W.e[k].h) {
			// during removal events nothing of the batch may have been removed yet
			okPhase = okPhase && !removal
			continue
		}
		exp := &b.post[k]
		if removal {
			exp = &b.pre[k]
		}
		for c := 0; c < vNC; c++ {
			okPhase = okPhase && W.u.Has(W.e[k].h, W.id[c]) == exp.has[c]
		}
		if exp.has[cR1] && W.u.Has(W.e[k].h, W.id[cR1]) {
			okPhase = okPhase && W.u.GetRelation(W.e[k].h, W.id[cR1]) == exp.tgt[0]
		}
	}
	if removal {
		vcheck("batch-cb/removal-events-before-any-change", okPhase)
	} else {
		vcheck("batch-cb/other-events-after-all-changes", okPhase)
	}
	vcheck("batch-cb/exactly-once-in-a-query", W.rowsHolding(e) == 1)
}

func (b *vBatchObs) observe(evts ...EventType) {
	for _, evt := range evts {
		evt := evt
		Observe(evt).Do(func(e Entity) { b.onEvent(evt, e) }).Register(b.W.w)
	}
}

func (b *vBatchObs) expect(tag string, evt EventType, want func(j int) bool) {
	for j := 0; j < b.W.n; j++ {
		exp := 0
		if b.sel[j] && want(j) {
			exp = 1
		}
		vcheck(tag+"/event-once-per-affected-entity", b.count[evt-OnCreateEntity][j] == exp)
	}
}

// AddBatch of the relation component R1 (with target) to entities holding A: OnAddComponents and OnAddRelations
func VerifC09_BatchAddRelation() {
	W := vShapeFor(1)
	q := W.arbQuerySpec(false)
	vassume(q.f.mask.Get(W.id[cA].id) && q.f.hasWithout && q.f.without.Get(W.id[cR1].id))
	t := W.pickTarget("target")
	if !W.targetOK(t) {
		return
	}
	b := &vBatchObs{W: W, sel: W.selection(q)}
	for j := 0; j < W.n; j++ {
		b.pre[j], b.post[j] = W.e[j], W.e[j]
		b.post[j].has[cR1] = true
		b.post[j].tgt[0] = t
	}
	b.observe(OnAddComponents, OnAddRelations, OnRemoveComponents, OnRemoveRelations)
	mp := NewMap1[vChild](W.w)
	vcheck("no-panic", !vpanics(func() { mp.AddBatchFn(W.batch(q), nil, RelIdx(0, t)) }))
	b.expect("add", OnAddComponents, func(int) bool { return true })
	b.expect("addrel", OnAddRelations, func(int) bool { return true })
	b.expect("rem", OnRemoveComponents, func(int) bool { return false })
	vreach("end")
}

// RemoveBatch of R1 from several tables: OnRemoveComponents and OnRemoveRelations before anything moved
func VerifC09_BatchRemoveRelation() {
	W := vShapeFor(1)
	q := W.arbQuerySpec(false)
	vassume(q.f.mask.Get(W.id[cR1].id))
	b := &vBatchObs{W: W, sel: W.selection(q)}
	for j := 0; j < W.n; j++ {
		b.pre[j], b.post[j] = W.e[j], W.e[j]
		b.post[j].has[cR1] = false
	}
	b.observe(OnAddComponents, OnAddRelations, OnRemoveComponents, OnRemoveRelations)
	mp := NewMap1[vChild](W.w)
	vcheck("no-panic", !vpanics(func() { mp.RemoveBatch(W.batch(q), nil) }))
	b.expect("rem", OnRemoveComponents, func(int) bool { return true })
	b.expect("remrel", OnRemoveRelations, func(int) bool { return true })
	b.expect("add", OnAddComponents, func(int) bool { return false })
	vreach("end")
}

// RemoveEntities: OnRemoveEntity / OnRemoveRelations for all, before any is removed
func VerifC09_BatchRemoveEntities() {
	W := vShapeFor(1)
	q := W.arbQuerySpec(false)
	b := &vBatchObs{W: W, sel: W.selection(q)}
	for j := 0; j < W.n; j++ {
		b.pre[j], b.post[j] = W.e[j], W.e[j]
	}
	b.observe(OnRemoveEntity, OnRemoveRelations)
	vcheck("no-panic", !vpanics(func() { W.w.RemoveEntities(W.batch(q), nil) }))
	b.expect("rement", OnRemoveEntity, func(int) bool { return true })
	b.expect("remrel", OnRemoveRelations, func(j int) bool { return W.e[j].has[cR1] || W.e[j].has[cR2] })
	vreach("end")
}

// SetRelationsBatch: OnRemoveRelations before any, OnAddRelations after all (documented batch timing)
func VerifC09_BatchSetRelations() {
	W := vShapeFor(1)
	q := W.arbQuerySpec(false)
	vassume(q.f.mask.Get(W.id[cR1].id))
	t := W.pickTarget("target")
	if !W.targetOK(t) {
		return
	}
	b := &vBatchObs{W: W, sel: W.selection(q)}
	for j := 0; j < W.n; j++ {
		b.pre[j], b.post[j] = W.e[j], W.e[j]
		b.post[j].tgt[0] = t
	}
	b.observe(OnAddRelations, OnRemoveRelations)
	mp := NewMap1[vChild](W.w)
	vcheck("no-panic", !vpanics(func() { mp.SetRelationsBatch(W.batch(q), nil, RelIdx(0, t)) }))
	changed := func(j int) bool { return W.e[j].tgt[0] != t }
	b.expect("remrel", OnRemoveRelations, changed)
	b.expect("addrel", OnAddRelations, changed)
	vreach("end")
}

func VerifC09_RelTypedNew()        { vStepObserved(true, 9) }
func VerifC09_PlainTypedAdd()      { vStepObserved(false, 10) }
func VerifC09_PlainTypedExchange() { vStepObserved(false, 11) }
func VerifC09_RelTypedRemove()     { vStepObserved(true, 12) }

// NewBatchFn into a table that already holds rows: OnCreateEntity / OnAddRelations are emitted
// once per NEW entity, after the batch callback ran for all of them (its writes are visible),
// with the world locked; old rows are not reported.
func VerifC09_BatchNew() {
	W := vShapeFor(1)
	t := W.e[0].h // parent p0 already has children in (R1->p0, A)
	count := 1 + vPick("count", 3)
	if W.n+count > vNE {
		return
	}
	n0 := W.n
	var vals [4]uint32
	for i := range vals {
		vals[i] = vU32("val")
	}
	created := 0
	var evCreate, evRel [vNE]int
	bad := 0
	see := func(arr *[vNE]int) func(Entity) {
		return func(e Entity) {
			j := W.indexOf(e)
			if j < n0 || !W.w.IsLocked() || created != count || !W.w.Alive(e) {
				bad++
				return
			}
			if *W.getPos(e) != W.e[j].pos || W.u.GetRelation(e, W.id[cR1]) != t || W.rowsHolding(e) != 1 {
				bad++
			}
			arr[j]++
		}
	}
	Observe(OnCreateEntity).Do(see(&evCreate)).Register(W.w)
	Observe(OnAddRelations).Do(see(&evRel)).Register(W.w)
	mp := NewMap2[vChild, vPos](W.w)
	vcheck("no-panic", !vpanics(func() {
		mp.NewBatchFn(count, func(e Entity, _ *vChild, p *vPos) {
			if W.n < vNE {
				W.e[W.n] = vEnt{h: e, alive: true, pos: vPos{vals[created%4], 3}}
				W.e[W.n].has[cR1], W.e[W.n].has[cA] = true, true
				W.e[W.n].tgt[0] = t
				*p = W.e[W.n].pos
				W.n++
			}
			created++
		}, RelIdx(0, t))
	}))
	vcheck("callback-once-per-new-entity", created == count && W.n == n0+count)
	vcheck("events-after-all-callbacks-locked-right-entities", bad == 0)
	for j := 0; j < W.n; j++ {
		exp := 0
		if j >= n0 {
			exp = 1
		}
		vcheck("event-once-per-new-entity", evCreate[j] == exp && evRel[j] == exp)
	}
	W.checkAll("after")
	vreach("end")
}

// ---- batch creation through every API path x initialiser present/absent x observer set:
// every callback (initialiser and observers) runs with the world locked, sees an alive new
// entity with its relation target in place, events fire once per new entity after all
// initialiser calls, and the world is unlocked afterwards.
func VerifC09_BatchCreateMatrix() {
	W := vShapeFor(1)
	t := W.e[0].h
	n0 := W.n
	const count = 2
	if W.n+count > vNE {
		return
	}
	api := vPick("api", 6)
	withFn := vPick("initialiser", 2) == 1 && api%2 == 0 // NewBatch (odd) always copies a value
	obsSet := vPick("observers", 4)                      // bit 0: OnCreateEntity, bit 1: OnAddRelations
	// the destination table already holds a row (created before any observer is registered):
	// events are for the NEW rows only
	var warm Entity
	switch api {
	case 0, 1:
		warm = NewMap[vChild](W.w).NewEntity(&vChild{}, t)
	case 2, 3:
		warm = NewMap1[vChild](W.w).NewEntity(&vChild{}, RelIdx(0, t))
	default:
		warm = NewMap2[vChild, vPos](W.w).NewEntity(&vChild{}, &vPos{}, RelIdx(0, t))
	}
	inits, unlockedCalls, badEntity := 0, 0, 0
	var evCreate, evRel [vNE]int
	isNew := func(e Entity) bool {
		ok := W.w.Alive(e) && W.indexOf(e) < 0 && e != warm && W.u.GetRelation(e, W.id[cR1]) == t
		return ok
	}
	seen := map[Entity]int{}
	var order []Entity
	idx := func(e Entity) int {
		if k, ok := seen[e]; ok {
			return k
		}
		seen[e] = len(order)
		order = append(order, e)
		return len(order) - 1
	}
	see := func(arr *[vNE]int) func(Entity) {
		return func(e Entity) {
			if !W.w.IsLocked() {
				unlockedCalls++
			}
			if !isNew(e) || (withFn && inits != count) {
				badEntity++
				return
			}
			if k := idx(e); k < vNE {
				arr[k]++
			}
		}
	}
	if obsSet&1 != 0 {
		Observe(OnCreateEntity).Do(see(&evCreate)).Register(W.w)
	}
	if obsSet&2 != 0 {
		Observe(OnAddRelations).Do(see(&evRel)).Register(W.w)
	}
	init := func(e Entity) {
		if !W.w.IsLocked() {
			unlockedCalls++
		}
		if !isNew(e) {
			badEntity++
		}
		idx(e)
		inits++
	}
	vcheck("no-panic", !vpanics(func() {
		switch api {
		case 0:
			m := NewMap[vChild](W.w)
			if withFn {
				m.NewBatchFn(count, func(e Entity, _ *vChild) { init(e) }, t)
			} else {
				m.NewBatchFn(count, nil, t)
			}
		case 1:
			NewMap[vChild](W.w).NewBatch(count, &vChild{}, t)
		case 2:
			m := NewMap1[vChild](W.w)
			if withFn {
				m.NewBatchFn(count, func(e Entity, _ *vChild) { init(e) }, RelIdx(0, t))
			} else {
				m.NewBatchFn(count, nil, RelIdx(0, t))
			}
		case 3:
			NewMap1[vChild](W.w).NewBatch(count, &vChild{}, RelIdx(0, t))
		case 4:
			m := NewMap2[vChild, vPos](W.w)
			if withFn {
				m.NewBatchFn(count, func(e Entity, _ *vChild, _ *vPos) { init(e) }, RelIdx(0, t))
			} else {
				m.NewBatchFn(count, nil, RelIdx(0, t))
			}
		case 5:
			NewMap2[vChild, vPos](W.w).NewBatch(count, &vChild{}, &vPos{1, 2}, RelIdx(0, t))
		}
	}))
	vcheck("all-callbacks-ran-with-the-world-locked", unlockedCalls == 0)
	vcheck("callbacks-saw-new-alive-entities-after-initialisation", badEntity == 0)
	if withFn {
		vcheck("initialiser-once-per-new-entity", inits == count)
	}
	for k := 0; k < count; k++ {
		wantC, wantR := 0, 0
		if obsSet&1 != 0 {
			wantC = 1
		}
		if obsSet&2 != 0 {
			wantR = 1
		}
		vcheck("events-once-per-new-entity", evCreate[k] == wantC && evRel[k] == wantR)
	}
	vcheck("unlocked-afterwards", !W.w.IsLocked())
	// the new entities join the model
	q := NewFilter1[vChild](W.w).Query(RelIdx(0, t))
	created := 0
	for q.Next() {
		if W.indexOf(q.Entity()) < 0 && q.Entity() != warm {
			created++
		}
	}
	vcheck("created-count", created == count && n0 == W.n)
	vreach("end")
}

// the same creation paths on a LOCKED world: rejected without creating anything
func VerifC07_LockedBatchCreateMatrix() {
	vMode = 0
	W := vShapeFor(1)
	t := W.e[0].h
	q := NewFilter1[vPos](W.w).Query()
	vLocked = true
	api := vPick("api", 8)
	W.expectReject("locked/batch-create", func() {
		switch api {
		case 0:
			NewMap[vChild](W.w).NewBatchFn(2, nil, t)
		case 1:
			NewMap[vChild](W.w).NewBatch(2, &vChild{}, t)
		case 2:
			NewMap1[vChild](W.w).NewBatchFn(2, nil, RelIdx(0, t))
		case 3:
			NewMap1[vChild](W.w).NewBatch(2, &vChild{}, RelIdx(0, t))
		case 4:
			NewMap2[vChild, vPos](W.w).NewBatchFn(2, nil, RelIdx(0, t))
		case 5:
			NewMap2[vChild, vPos](W.w).NewBatch(2, &vChild{}, &vPos{}, RelIdx(0, t))
		case 6:
			NewMap[vChild](W.w).NewEntity(&vChild{}, t)
		case 7:
			NewMap1[vPos](W.w).NewEntityFn(nil)
		}
	})
	q.Close()
	vLocked = false
	W.checkAll("unlocked")
	vreach("end")
}
