//go:build verif

package ecs

import (
	"reflect"
	"unsafe"
)

// ---- C11-H2: isTrivial(t) implies that t holds no pointers, over a SYMBOLIC type
// descriptor (every reflect.Kind at every node of a depth-2 type tree). A "trivial"
// column is copied and zeroed as raw memory without write barriers, so a pointer-bearing
// type that is classified trivial is invisible to the garbage collector while it moves.

func vHasPointers(t reflect.Type) bool {
	switch t.Kind() {
	case reflect.Ptr, reflect.UnsafePointer, reflect.Func, reflect.Chan, reflect.Map, reflect.Slice, reflect.String, reflect.Interface:
		return true
	}
	r := false
	if t.Kind() == reflect.Struct {
		for i := 0; i < t.NumField(); i++ {
			r = r || vHasPointers(t.Field(i).Type)
		}
	}
	if t.Kind() == reflect.Array {
		r = r || vHasPointers(t.Elem())
	}
	return r
}

func vIsTrivialSound(depth int) {
	t := vsymtype(depth)
	var triv bool
	vmerge(func() { triv = isTrivial(t) })
	ptrs := vpure(func() bool { return vHasPointers(t) })
	vcheck("trivial-implies-pointer-free", !triv || !ptrs)
	// and the classification is not vacuous: pointer-free scalars are trivial
	if t.Kind() == reflect.Uint32 {
		vcheck("uint32-is-trivial", triv)
		vreach("scalar")
	}
	vreach("end")
}

func VerifC11_IsTrivialDepth0()  { vIsTrivialSound(0) }
func VerifC11_IsTrivialDepth1()  { vIsTrivialSound(1) }
func VerifC11T_IsTrivialDepth2() { vNoMul = true; vIsTrivialSound(2) }

// the registry stores the flags computed by isTrivial / isRelation for the real harness types
func VerifC11_RegistryFlags() {
	W := vNewWorld(1, 1, 0)
	r := &W.w.storage.registry
	vcheck("pos-trivial", r.IsTrivial[W.id[cA].id] && r.IsTrivial[W.id[cB].id] && r.IsTrivial[W.id[cT].id])
	vcheck("ptr-component-not-trivial", !r.IsTrivial[W.id[cP].id])
	vcheck("relations", r.IsRelation[W.id[cR1].id] && r.IsRelation[W.id[cR2].id] && !r.IsRelation[W.id[cA].id])
	_ = unsafe.Pointer(nil)
	vreach("end")
}

// concrete component types whose pointer-bearing parts sit in unexported, embedded, blank,
// nested and array fields: never trivial; their pointer-free twins: trivial
type vHiddenPtr struct {
	A uint32
	p *uint32
}
type vHiddenSlice struct {
	_ [0]func()
	b []byte
}
type vEmbedsPtr struct {
	vHiddenPtr
	N uint64
}
type vArrayOfHidden struct{ arr [2]vHiddenPtr }
type vHiddenPlain struct {
	A uint32
	b [3]uint16
	c struct{ x, y int8 }
}
type vHiddenString struct{ s string }
type vHiddenMap struct{ m map[int]int }
type vHiddenIface struct{ i any }

func VerifC11_IsTrivialConcreteTypes() {
	vcheck("unexported-pointer", !isTrivial(reflect.TypeFor[vHiddenPtr]()))
	vcheck("unexported-slice-after-blank-field", !isTrivial(reflect.TypeFor[vHiddenSlice]()))
	vcheck("embedded", !isTrivial(reflect.TypeFor[vEmbedsPtr]()))
	vcheck("array-of-structs", !isTrivial(reflect.TypeFor[vArrayOfHidden]()))
	vcheck("string", !isTrivial(reflect.TypeFor[vHiddenString]()))
	vcheck("map", !isTrivial(reflect.TypeFor[vHiddenMap]()))
	vcheck("interface", !isTrivial(reflect.TypeFor[vHiddenIface]()))
	vcheck("pointer-free-with-unexported-fields", isTrivial(reflect.TypeFor[vHiddenPlain]()))
	// and the registry carries the flag into the storage
	w := NewWorld(1)
	id := ComponentID[vHiddenPtr](w)
	vcheck("registry-flag", !w.storage.registry.IsTrivial[id.id])
	vreach("end")
}

// native construction of the type the engine describes symbolically (same nondet order)
func vsymtype(depth int) reflect.Type {
	k := reflect.Kind(vU64("kind"))
	var fields []reflect.StructField
	var elem reflect.Type
	if depth > 0 {
		nf := int(vU8("numfield"))
		for i := 0; i < nf; i++ {
			fields = append(fields, reflect.StructField{Name: "F" + string(rune('0'+i)), Type: vsymtype(depth - 1)})
		}
		elem = vsymtype(depth - 1)
	}
	if elem == nil {
		elem = reflect.TypeFor[uint8]()
	}
	switch k {
	case reflect.Bool:
		return reflect.TypeFor[bool]()
	case reflect.Int:
		return reflect.TypeFor[int]()
	case reflect.Int8:
		return reflect.TypeFor[int8]()
	case reflect.Int16:
		return reflect.TypeFor[int16]()
	case reflect.Int32:
		return reflect.TypeFor[int32]()
	case reflect.Int64:
		return reflect.TypeFor[int64]()
	case reflect.Uint:
		return reflect.TypeFor[uint]()
	case reflect.Uint8:
		return reflect.TypeFor[uint8]()
	case reflect.Uint16:
		return reflect.TypeFor[uint16]()
	case reflect.Uint32:
		return reflect.TypeFor[uint32]()
	case reflect.Uint64:
		return reflect.TypeFor[uint64]()
	case reflect.Uintptr:
		return reflect.TypeFor[uintptr]()
	case reflect.Float32:
		return reflect.TypeFor[float32]()
	case reflect.Float64:
		return reflect.TypeFor[float64]()
	case reflect.Complex64:
		return reflect.TypeFor[complex64]()
	case reflect.Complex128:
		return reflect.TypeFor[complex128]()
	case reflect.Array:
		return reflect.ArrayOf(2, elem)
	case reflect.Chan:
		return reflect.ChanOf(reflect.BothDir, elem)
	case reflect.Func:
		return reflect.TypeFor[func()]()
	case reflect.Interface:
		return reflect.TypeFor[any]()
	case reflect.Map:
		return reflect.MapOf(reflect.TypeFor[int](), elem)
	case reflect.Ptr:
		return reflect.PointerTo(elem)
	case reflect.Slice:
		return reflect.SliceOf(elem)
	case reflect.String:
		return reflect.TypeFor[string]()
	case reflect.Struct:
		return reflect.StructOf(fields)
	case reflect.UnsafePointer:
		return reflect.TypeFor[unsafe.Pointer]()
	}
	return reflect.TypeFor[uint8]()
}

// ---- C11-H1: "rows >= len are zero" is re-established by every operation that vacates
// or moves rows, so a component added without a value reads as zero whatever occupied
// the storage before (checked by invZero and the zero-initialised checks of the steps).
func VerifC11_ZeroAfterRemoveEntity() { vRun(1, func() { vStepPlain(5, 1, 60) }) }
func VerifC11_ZeroAfterRemove()       { vRun(1, func() { vStepPlain(2, 1, 60) }) }
func VerifC11_ZeroAfterNew()          { vRun(1, func() { vStepPlain(0, 1, 60) }) }
func VerifC11_ZeroAfterRelRemoveEntity() {
	vRun(1, func() { vStepRel(5, 1, 60) })
}
func VerifC11_ZeroAfterBatchRemove() { vBatchRemove(0, false) }
func VerifC11_ZeroAfterShrink()      { vRun(1, func() { vStepPlain(8, 2, 60) }) }

// whole-table resets (batch removal of entities, batch exchange) over the pointer-bearing column
func VerifC11_ZeroAfterRemoveEntitiesBatch() { vBatchRemoveEntities(0, false) }
func VerifC11_ZeroAfterBatchExchange()       { vBatchExchange(0) }
func VerifC11_ZeroAfterWorldReset()          { vResetScenario(0) }
