package main

import (
	"fmt"
	"go/token"
	"go/types"

	"golang.org/x/tools/go/ssa"
)

func deref(t types.Type) types.Type {
	return t.Underlying().(*types.Pointer).Elem()
}

// eval evaluates a value-producing instruction under guard (true outside
// merged regions).
func (e *Engine) eval(f *frame, v ssa.Value, guard T) Value {
	switch x := v.(type) {
	case *ssa.Alloc:
		return Ptr{l: newLoc(deref(x.Type()))}
	case *ssa.BinOp:
		return e.evalBinOp(f, x, guard)
	case *ssa.UnOp:
		a := e.get(f, x.X)
		switch x.Op {
		case token.MUL:
			return e.doLoad(a, x.Type(), guard)
		case token.NOT:
			return tnot(a.(T))
		case token.SUB:
			t := a.(T)
			return binop("-", bv(0, t.w), t, true)
		case token.XOR:
			t := a.(T)
			if t.isC {
				return bv(^t.c, t.w)
			}
			return app("bvnot", t.w, t)
		}
	case *ssa.FieldAddr:
		return e.fieldAddr(e.get(f, x.X), deref(x.X.Type()), x.Field, guard)
	case *ssa.Field:
		return e.get(f, x.X).(StructV).f[x.Field]
	case *ssa.IndexAddr:
		return e.indexAddr(f, x, guard)
	case *ssa.Index:
		base := e.get(f, x.X)
		idx := e.get(f, x.Index).(T)
		switch b := base.(type) {
		case ArrayV:
			if !idx.isC && (e.inPure() || !guard.isTrue() || len(b.e) <= 8) {
				if len(b.e) == 0 {
					panic(goPanic{"index out of range (empty array)"})
				}
				inb := inBounds(idx, len(b.e))
				e.purePanicIf(tand(guard, tnot(inb)), "index out of range "+x.String())
				val := b.e[len(b.e)-1]
				for i := len(b.e) - 2; i >= 0; i-- {
					val = e.iteVal(teq(idx, bv(uint64(i), idx.w)), b.e[i], val)
				}
				return val
			}
			i := e.concretizeIndex(idx, isSigned(x.Index.Type()), len(b.e), x.String())
			return b.e[i]
		case StringV:
			i := e.concretizeIndex(idx, isSigned(x.Index.Type()), len(b.s), x.String())
			return bv(uint64(b.s[i]), 8)
		}
	case *ssa.Slice:
		return e.evalSlice(f, x)
	case *ssa.MakeSlice:
		ln := int(e.concretizeVal(e.get(f, x.Len).(T), "makeslice len"))
		cp := int(e.concretizeVal(e.get(f, x.Cap).(T), "makeslice cap"))
		if ln < 0 || cp < ln || cp > 1<<16 {
			panic(goPanic{fmt.Sprintf("makeslice: len %d cap %d out of range", ln, cp)})
		}
		et := x.Type().Underlying().(*types.Slice).Elem()
		return SliceV{base: newArrayLoc(et, cp), len: ln, cap: cp}
	case *ssa.MakeMap:
		mt := x.Type().Underlying().(*types.Map)
		locCounter++
		return MapV{&MapObj{kt: mt.Key(), vt: mt.Elem(), id: locCounter}}
	case *ssa.Lookup:
		return e.evalLookup(f, x, guard)
	case *ssa.Extract:
		return e.get(f, x.Tuple).(TupleV).v[x.Index]
	case *ssa.MakeInterface:
		return IfaceV{typ: x.X.Type(), v: e.get(f, x.X)}
	case *ssa.ChangeInterface:
		return e.get(f, x.X)
	case *ssa.MakeClosure:
		c := ClosureV{fn: x.Fn.(*ssa.Function)}
		for _, b := range x.Bindings {
			c.bind = append(c.bind, e.get(f, b))
		}
		return c
	case *ssa.ChangeType:
		return e.get(f, x.X)
	case *ssa.Convert:
		return e.evalConvert(f, x)
	case *ssa.SliceToArrayPointer:
		s := e.get(f, x.X).(SliceV)
		n := int(deref(x.Type()).Underlying().(*types.Array).Len())
		if s.len < n {
			panic(goPanic{"slice to array pointer: length too short"})
		}
		if s.raw {
			return s.rawp
		}
		if s.isNil || s.base == nil {
			return Ptr{}
		}
		if n == 0 {
			return Ptr{l: newLoc(deref(x.Type()))}
		}
		return norm(Ptr{l: s.base.kids[s.off]})
	case *ssa.TypeAssert:
		iv := e.get(f, x.X).(IfaceV)
		ok := false
		if iv.typ != nil {
			if types.IsInterface(x.AssertedType) {
				ok = types.AssignableTo(iv.typ, x.AssertedType) || types.Implements(iv.typ, x.AssertedType.Underlying().(*types.Interface))
			} else {
				ok = types.Identical(iv.typ, x.AssertedType)
			}
		}
		var val Value
		if ok {
			if types.IsInterface(x.AssertedType) {
				val = iv
			} else {
				val = iv.v
			}
		} else {
			val = zeroValue(x.AssertedType)
		}
		if x.CommaOk {
			return TupleV{[]Value{val, tbool(ok)}}
		}
		if !ok {
			panic(goPanic{"interface conversion: type assertion failed"})
		}
		return val
	case *ssa.Range:
		m := e.get(f, x.X).(MapV)
		it := &MapIter{m: m.m}
		if m.m != nil {
			n := len(m.m.keys)
			for _, i := range permutation(n, e.mapOrder) {
				it.keys = append(it.keys, m.m.keys[i])
				it.vals = append(it.vals, m.m.vals[i])
			}
		}
		return it
	case *ssa.Next:
		it := e.get(f, x.Iter).(*MapIter)
		mt := x.Iter.(*ssa.Range).X.Type().Underlying().(*types.Map)
		for it.pos < len(it.keys) {
			k, l := it.keys[it.pos], it.vals[it.pos]
			it.pos++
			present := false
			for _, v := range it.m.vals { // entries deleted during the iteration are not produced
				if v == l {
					present = true
					break
				}
			}
			if !present {
				continue
			}
			return TupleV{[]Value{tbool(true), k, l.load()}}
		}
		return TupleV{[]Value{tbool(false), zeroValue(mt.Key()), zeroValue(mt.Elem())}}
	case *ssa.Call:
		return e.doCall(f, x, guard)
	}
	panic(engineError{fmt.Sprintf("unsupported value %T: %s in %s", v, v, f.fn)})
}

// permutation returns the k-th permutation (mod n!) of 0..n-1; k=0 is identity.
func permutation(n, k int) []int {
	items := make([]int, n)
	for i := range items {
		items[i] = i
	}
	out := make([]int, 0, n)
	for i := n; i > 0; i-- {
		j := k % i
		k /= i
		out = append(out, items[j])
		items = append(items[:j], items[j+1:]...)
	}
	return out
}

func (e *Engine) purePanicIf(c T, msg string) {
	if c.isFalse() {
		return
	}
	if e.accOn {
		// accumulate; discharged once when the merged computation ends
		e.panicAcc = tor(e.panicAcc, c)
		if len(e.panicMsgs) < 8 {
			e.panicMsgs = append(e.panicMsgs, msg+" at "+e.where())
		}
		return
	}
	if e.s.checkWith(c) != "unsat" {
		// in a merged library region: fail closed
		panic(engineError{"panic reachable inside merged region: " + msg})
	}
}

func (e *Engine) evalBinOp(f *frame, x *ssa.BinOp, guard T) Value {
	a, b := e.get(f, x.X), e.get(f, x.Y)
	if x.Op == token.EQL || x.Op == token.NEQ {
		if _, ok := a.(T); !ok {
			r := e.valEq(a, b)
			if x.Op == token.NEQ {
				r = tnot(r)
			}
			return r
		}
	}
	if sa, ok := a.(StringV); ok {
		sb := b.(StringV)
		switch x.Op {
		case token.ADD:
			return StringV{s: sa.s + sb.s, opaque: sa.opaque || sb.opaque}
		case token.LSS:
			return tbool(sa.s < sb.s)
		case token.GTR:
			return tbool(sa.s > sb.s)
		}
	}
	if _, ok := a.(OpaqueV); ok {
		return OpaqueV{what: "float"}
	}
	ta, tb := a.(T), b.(T)
	if x.Op == token.SHL || x.Op == token.SHR {
		// Go: shift count is unsigned (or panics when negative); widths may differ
		if tb.w > ta.w {
			// counts >= width give 0 / sign fill: saturate
			if tb.isC {
				if tb.c >= uint64(ta.w) {
					tb = bv(uint64(ta.w), ta.w)
				} else {
					tb = bv(tb.c, ta.w)
				}
			} else {
				big := binop(">=", tb, bv(uint64(ta.w), tb.w), false)
				tb = tite(big, bv(uint64(ta.w), ta.w), tconv(tb, ta.w, false))
			}
		} else {
			tb = tconv(tb, ta.w, false)
		}
	}
	if (x.Op == token.QUO || x.Op == token.REM) && !tb.isC {
		z := teq(tb, bv(0, tb.w))
		if e.inPure() || !guard.isTrue() {
			e.purePanicIf(tand(guard, z), "integer divide by zero")
		} else if e.branch(z) {
			panic(goPanic{"integer divide by zero"})
		}
	} else if (x.Op == token.QUO || x.Op == token.REM) && tb.c == 0 {
		panic(goPanic{"integer divide by zero"})
	}
	return binop(x.Op.String(), ta, tb, isSigned(x.X.Type()))
}

func (e *Engine) evalConvert(f *frame, x *ssa.Convert) Value {
	a := e.get(f, x.X)
	switch t := a.(type) {
	case T:
		w := widthOf(x.Type())
		if w > 0 {
			return tconv(t, w, isSigned(x.X.Type()))
		}
		if isUnsafePointer(x.Type()) {
			// uintptr -> unsafe.Pointer: only null is representable
			if t.isC && t.c == 0 {
				return Ptr{}
			}
			panic(engineError{"uintptr to unsafe.Pointer conversion"})
		}
		if b, ok := x.Type().Underlying().(*types.Basic); ok && b.Info()&types.IsFloat != 0 {
			return OpaqueV{what: "float"}
		}
	case Ptr, MPtr:
		// *T <-> unsafe.Pointer
		if _, ok := x.Type().Underlying().(*types.Pointer); ok || isUnsafePointer(x.Type()) {
			return a
		}
		// unsafe.Pointer -> uintptr: a number that orders pointers INTO ONE ALLOCATION correctly
		// (allocation number * 2^32 + byte offset); nothing may be converted back (rejected above),
		// and numbers of different allocations are only distinct, not meaningfully ordered.
		if b, ok := x.Type().Underlying().(*types.Basic); ok && b.Kind() == types.Uintptr {
			if q, ok := a.(Ptr); ok {
				if q.l == nil {
					return bv(uint64(q.off), 64)
				}
				n := norm(q)
				if e.allocNo == nil {
					e.allocNo = map[*Loc]uint64{}
				}
				id, seen := e.allocNo[n.l]
				if !seen {
					id = uint64(len(e.allocNo) + 1)
					e.allocNo[n.l] = id
				}
				return bv(id<<32+uint64(n.off), 64)
			}
		}
	case StringV:
		if sl, ok := x.Type().Underlying().(*types.Slice); ok {
			arr := newArrayLoc(sl.Elem(), len(t.s))
			for i := range t.s {
				arr.kids[i].v = bv(uint64(t.s[i]), 8)
			}
			return SliceV{base: arr, len: len(t.s), cap: len(t.s)}
		}
		return a
	case SliceV:
		if b, ok := x.Type().Underlying().(*types.Basic); ok && b.Info()&types.IsString != 0 {
			return StringV{s: "<bytes>", opaque: true}
		}
	case OpaqueV:
		return a
	}
	panic(engineError{"convert " + x.String() + " in " + f.fn.String()})
}

func (e *Engine) fieldAddr(p Value, st types.Type, field int, guard T) Value {
	switch x := p.(type) {
	case Ptr:
		if x.l == nil {
			if e.inPure() || !guard.isTrue() {
				e.purePanicIf(guard, "nil pointer dereference (field)")
				return Ptr{}
			}
			panic(goPanic{"nil pointer dereference (field)"})
		}
		if l := resolve(x, st); l != nil && isStruct(l.typ) {
			return Ptr{l: l.kids[field]}
		}
		// typed view over foreign memory: keep a raw pointer
		q := norm(x)
		return Ptr{l: q.l, off: q.off + kidOffset(st, field)}
	case MPtr:
		r := MPtr{conds: x.conds}
		for i, c := range x.cands {
			r.cands = append(r.cands, e.fieldAddr(c, st, field, tand(guard, x.conds[i])).(Ptr))
		}
		return r
	}
	panic(engineError{fmt.Sprintf("fieldAddr on %T", p)})
}

// elemPtr returns the pointer to element i of a slice value.
func elemPtr(s SliceV, i int, et types.Type) Ptr {
	if s.raw {
		return Ptr{l: s.rawp.l, off: s.rawp.off + int64(i)*sizeof(et)}
	}
	return Ptr{l: s.base.kids[s.off+i]}
}

func (e *Engine) indexAddr(f *frame, x *ssa.IndexAddr, guard T) Value {
	base := e.get(f, x.X)
	idx := e.get(f, x.Index).(T)
	signed := isSigned(x.Index.Type())
	return e.indexAddrOn(f, x, base, idx, signed, guard)
}

func (e *Engine) indexAddrOn(f *frame, x *ssa.IndexAddr, base Value, idx T, signed bool, guard T) Value {
	var n int
	var at func(i int) Ptr
	switch b := base.(type) {
	case SliceV:
		et := x.X.Type().Underlying().(*types.Slice).Elem()
		n = b.len
		at = func(i int) Ptr { return elemPtr(b, i, et) }
	case Ptr:
		at2 := deref(x.X.Type())
		arr := at2.Underlying().(*types.Array)
		if b.l == nil {
			if e.inPure() || !guard.isTrue() {
				e.purePanicIf(guard, "nil pointer dereference (index)")
				return Ptr{}
			}
			panic(goPanic{"nil pointer dereference (index)"})
		}
		n = int(arr.Len())
		if l := resolve(b, at2); l != nil {
			at = func(i int) Ptr { return Ptr{l: l.kids[i]} }
		} else {
			q := norm(b)
			es := sizeof(arr.Elem())
			at = func(i int) Ptr { return Ptr{l: q.l, off: q.off + int64(i)*es} }
		}
	case MPtr:
		panic(engineError{"index through pointer set unsupported"})
	case IteV:
		// a slice chosen under a symbolic guard: index both alternatives
		pa := e.indexAddrOn(f, x, b.a, idx, signed, tand(guard, b.c))
		pb := e.indexAddrOn(f, x, b.b, idx, signed, tand(guard, tnot(b.c)))
		return e.iteVal(b.c, pa, pb)
	default:
		panic(engineError{fmt.Sprintf("indexAddr on %T", base)})
	}
	if !idx.isC && (e.inPure() || !guard.isTrue()) {
		if n > 4096 {
			panic(engineError{"symbolic index into huge array in pure code"})
		}
		m := MPtr{}
		inb := inBounds(idx, n)
		e.purePanicIf(tand(guard, tnot(inb)), "index out of range "+x.String())
		for i := 0; i < n; i++ {
			m.cands = append(m.cands, at(i))
			m.conds = append(m.conds, teq(idx, bv(uint64(i), idx.w)))
		}
		if n == 0 {
			return Ptr{}
		}
		return m
	}
	if idx.isC && (e.inPure() || !guard.isTrue()) {
		v := int64(idx.c)
		if signed {
			v = sext64(idx.c, idx.w)
		}
		if v < 0 || v >= int64(n) {
			e.purePanicIf(guard, "index out of range "+x.String())
			return Ptr{}
		}
	}
	i := e.concretizeIndex(idx, signed, n, x.String())
	return at(i)
}

func (e *Engine) sliceBound(v ssa.Value, f *frame, max int, what string) int {
	t := e.get(f, v).(T)
	if t.isC {
		k := sext64(t.c, t.w)
		if k < 0 || k > int64(max) {
			panic(goPanic{fmt.Sprintf("slice bounds out of range [%s %d] with capacity %d", what, k, max)})
		}
		return int(k)
	}
	// symbolic bound: case split over 0..max, else panic
	return e.concretizeIndex(t, isSigned(v.Type()), max+1, "slice "+what)
}

func (e *Engine) evalSlice(f *frame, x *ssa.Slice) Value {
	base := e.get(f, x.X)
	switch b := base.(type) {
	case StringV:
		lo, hi := 0, len(b.s)
		if x.Low != nil {
			lo = e.sliceBound(x.Low, f, len(b.s), "low")
		}
		if x.High != nil {
			hi = e.sliceBound(x.High, f, len(b.s), "high")
		}
		if lo > hi {
			panic(goPanic{"slice bounds out of range (string)"})
		}
		return StringV{s: b.s[lo:hi], opaque: b.opaque}
	case SliceV:
		lo, hi, mx := 0, b.len, b.cap
		if x.Low != nil {
			lo = e.sliceBound(x.Low, f, b.cap, "low")
		}
		if x.High != nil {
			hi = e.sliceBound(x.High, f, b.cap, "high")
		}
		if x.Max != nil {
			mx = e.sliceBound(x.Max, f, b.cap, "max")
		}
		if lo > hi || hi > mx {
			panic(goPanic{fmt.Sprintf("slice bounds out of range [%d:%d:%d]", lo, hi, mx)})
		}
		r := b
		r.len, r.cap = hi-lo, mx-lo
		if b.raw {
			es := sizeof(x.Type().Underlying().(*types.Slice).Elem())
			r.rawp = Ptr{l: b.rawp.l, off: b.rawp.off + int64(lo)*es}
		} else {
			r.off = b.off + lo
		}
		r.isNil = b.isNil
		return r
	case Ptr:
		at := deref(x.X.Type())
		arr := at.Underlying().(*types.Array)
		if b.l == nil {
			panic(goPanic{"nil pointer dereference (slice of array pointer)"})
		}
		n := int(arr.Len())
		l := resolve(b, at)
		if l == nil {
			// byte (or other) view over foreign memory, e.g. (*[MaxInt32]byte)(p)[:n:n]
			lo, hi, mx := 0, n, n
			if x.Low != nil {
				lo = int(e.concretizeVal(e.get(f, x.Low).(T), "raw slice low"))
			}
			if x.High != nil {
				hi = int(e.concretizeVal(e.get(f, x.High).(T), "raw slice high"))
			}
			if x.Max != nil {
				mx = int(e.concretizeVal(e.get(f, x.Max).(T), "raw slice max"))
			}
			if lo < 0 || lo > hi || hi > mx || mx > n {
				panic(goPanic{fmt.Sprintf("slice bounds out of range [%d:%d:%d] (raw view)", lo, hi, mx)})
			}
			es := sizeof(arr.Elem())
			q := norm(b)
			return SliceV{raw: true, rawp: Ptr{l: q.l, off: q.off + int64(lo)*es}, len: hi - lo, cap: mx - lo}
		}
		lo, hi, mx := 0, n, n
		if x.Low != nil {
			lo = e.sliceBound(x.Low, f, n, "low")
		}
		if x.High != nil {
			hi = e.sliceBound(x.High, f, n, "high")
		}
		if x.Max != nil {
			mx = e.sliceBound(x.Max, f, n, "max")
		}
		if lo > hi || hi > mx {
			panic(goPanic{"slice bounds out of range (array)"})
		}
		return SliceV{base: l, off: lo, len: hi - lo, cap: mx - lo}
	}
	panic(engineError{fmt.Sprintf("slice of %T", base)})
}

func (e *Engine) evalLookup(f *frame, x *ssa.Lookup, guard T) Value {
	base := e.get(f, x.X)
	if s, ok := base.(StringV); ok {
		idx := e.get(f, x.Index).(T)
		i := e.concretizeIndex(idx, isSigned(x.Index.Type()), len(s.s), "string index")
		return bv(uint64(s.s[i]), 8)
	}
	m := base.(MapV)
	mt := x.X.Type().Underlying().(*types.Map)
	key := e.get(f, x.Index)
	zero := zeroValue(mt.Elem())
	if m.m == nil {
		if x.CommaOk {
			return TupleV{[]Value{zero, tbool(false)}}
		}
		return zero
	}
	if e.inPure() || !guard.isTrue() {
		cs := e.mapFindConds(m.m, key)
		val := zero
		found := tbool(false)
		for i := len(cs) - 1; i >= 0; i-- {
			val = e.iteVal(cs[i], m.m.vals[i].load(), val)
			found = tor(found, cs[i])
		}
		if x.CommaOk {
			return TupleV{[]Value{val, found}}
		}
		return val
	}
	i := e.mapFind(m.m, key)
	val := zero
	if i >= 0 {
		val = m.m.vals[i].load()
	}
	if x.CommaOk {
		return TupleV{[]Value{val, tbool(i >= 0)}}
	}
	return val
}

func (e *Engine) doCall(f *frame, x *ssa.Call, guard T) Value {
	cc := x.Common()
	args := make([]Value, 0, len(cc.Args)+1)
	if cc.IsInvoke() {
		recv := e.get(f, cc.Value)
		for _, a := range cc.Args {
			args = append(args, e.get(f, a))
		}
		return e.invoke(recv, cc.Method, args, x, guard)
	}
	for _, a := range cc.Args {
		args = append(args, e.get(f, a))
	}
	switch fn := cc.Value.(type) {
	case *ssa.Builtin:
		return e.builtin(fn.Name(), args, x, guard)
	case *ssa.Function:
		return e.callFn(fn, args, nil, guard, x)
	}
	c, ok := e.get(f, cc.Value).(ClosureV)
	if !ok {
		panic(engineError{"call of non-closure value in " + f.fn.String()})
	}
	if c.fn == nil {
		if e.inPure() || !guard.isTrue() {
			e.purePanicIf(guard, "nil func call")
			return zeroRet(x)
		}
		panic(goPanic{"invalid memory address or nil pointer dereference (nil func call)"})
	}
	return e.callFn(c.fn, args, c.bind, guard, x)
}

func zeroRet(x *ssa.Call) Value {
	sig := x.Common().Signature()
	switch sig.Results().Len() {
	case 0:
		return nil
	case 1:
		return zeroValue(sig.Results().At(0).Type())
	}
	tv := TupleV{}
	for i := 0; i < sig.Results().Len(); i++ {
		tv.v = append(tv.v, zeroValue(sig.Results().At(i).Type()))
	}
	return tv
}

func (e *Engine) callFn(fn *ssa.Function, args []Value, bind []Value, guard T, site *ssa.Call) Value {
	if fn.Pkg != nil && fn.Pkg != e.pkg && fn.Name() == "init" {
		return nil // other packages' initialisers are not run
	}
	if r, ok := e.intrinsic(fn, args, guard, site); ok {
		return r
	}
	if fn.Blocks == nil {
		panic(engineError{"call to function without body (unmodelled external): " + fn.String()})
	}
	if fn.Pkg != nil && fn.Pkg != e.pkg && !allowedExternal(fn) {
		panic(engineError{"call to unmodelled external: " + fn.String()})
	}
	if fn.Pkg != nil && fn.Pkg != e.pkg {
		e.exts[fn.String()] = true
	}
	if e.inPure() || !guard.isTrue() {
		return e.callPure(fn, args, bind, guard)
	}
	if !e.noMerge && isMergeable(fn) {
		if ok, opened := e.enterRegion(false); ok {
			if opened {
				defer e.leaveRegion()
			}
			return e.callPure(fn, args, bind, tbool(true))
		}
	}
	return e.call(fn, args, bind)
}

// allowedExternal lists std packages whose SSA is executed as is.
func allowedExternal(fn *ssa.Function) bool {
	p := fn.Pkg
	if p == nil {
		// instantiated generics / synthetic wrappers: look at origin
		if o := fn.Origin(); o != nil && o.Pkg != nil {
			p = o.Pkg
		} else {
			return true
		}
	}
	switch p.Pkg.Path() {
	case "encoding/binary", "math/bits", "math", "slices", "cmp":
		return true
	}
	return p.Pkg.Path() == "github.com/mlange-42/ark/ecs/stats"
}

func (e *Engine) invoke(recv Value, m *types.Func, args []Value, site *ssa.Call, guard T) Value {
	iv, ok := recv.(IfaceV)
	if !ok {
		panic(engineError{fmt.Sprintf("invoke on %T", recv)})
	}
	if iv.typ == nil {
		panic(goPanic{"nil interface method call " + m.Name()})
	}
	if rt, ok := iv.v.(RType); ok {
		return e.rtypeMethod(rt, m.Name(), args)
	}
	// dynamic dispatch on a concrete dynamic type
	sel := e.prog.MethodSets.MethodSet(iv.typ).Lookup(m.Pkg(), m.Name())
	if sel == nil {
		panic(engineError{"no method " + m.Name() + " on " + iv.typ.String()})
	}
	fn := e.prog.MethodValue(sel)
	return e.callFn(fn, append([]Value{iv.v}, args...), nil, guard, site)
}

func (e *Engine) builtin(name string, args []Value, x *ssa.Call, guard T) Value {
	switch name {
	case "len":
		if iv, ok := args[0].(IteV); ok {
			la := e.builtin("len", []Value{iv.a}, x, guard).(T)
			lb := e.builtin("len", []Value{iv.b}, x, guard).(T)
			return tite(iv.c, la, lb)
		}
		switch a := args[0].(type) {
		case SliceV:
			return bv(uint64(a.len), 64)
		case MapV:
			if a.m == nil {
				return bv(0, 64)
			}
			return bv(uint64(len(a.m.keys)), 64)
		case StringV:
			return bv(uint64(len(a.s)), 64)
		case Ptr: // pointer to array
			return bv(uint64(deref(x.Common().Args[0].Type()).Underlying().(*types.Array).Len()), 64)
		case ArrayV:
			return bv(uint64(len(a.e)), 64)
		}
	case "cap":
		switch a := args[0].(type) {
		case SliceV:
			return bv(uint64(a.cap), 64)
		}
	case "append":
		if !guard.isTrue() {
			panic(engineError{"append under guard unsupported"})
		}
		s := args[0].(SliceV)
		et := x.Type().Underlying().(*types.Slice).Elem()
		var add SliceV
		switch a := args[1].(type) {
		case SliceV:
			add = a
		case StringV:
			arr := newArrayLoc(et, len(a.s))
			for i := range a.s {
				arr.kids[i].v = bv(uint64(a.s[i]), 8)
			}
			add = SliceV{base: arr, len: len(a.s), cap: len(a.s)}
		}
		if add.len == 0 {
			return s
		}
		vals := make([]Value, add.len)
		for i := 0; i < add.len; i++ {
			vals[i] = loadTyped(elemPtr(add, i, et), et)
		}
		if s.len+add.len <= s.cap {
			for i := 0; i < add.len; i++ {
				storeTyped(elemPtr(s, s.len+i, et), et, vals[i])
			}
			s.len += add.len
			s.isNil = false
			return s
		}
		nc := s.len + add.len
		if nc < 2*s.cap {
			nc = 2 * s.cap
		}
		arr := newArrayLoc(et, nc)
		for i := 0; i < s.len; i++ {
			arr.kids[i].store(loadTyped(elemPtr(s, i, et), et))
		}
		for i := 0; i < add.len; i++ {
			arr.kids[s.len+i].store(vals[i])
		}
		return SliceV{base: arr, len: s.len + add.len, cap: nc}
	case "copy":
		if !guard.isTrue() {
			panic(engineError{"copy under guard unsupported"})
		}
		d := args[0].(SliceV)
		et := x.Common().Args[0].Type().Underlying().(*types.Slice).Elem()
		var s SliceV
		switch a := args[1].(type) {
		case SliceV:
			s = a
		case StringV:
			arr := newArrayLoc(et, len(a.s))
			for i := range a.s {
				arr.kids[i].v = bv(uint64(a.s[i]), 8)
			}
			s = SliceV{base: arr, len: len(a.s), cap: len(a.s)}
		}
		n := min(d.len, s.len)
		if n == 0 {
			return bv(0, 64)
		}
		if d.raw || s.raw {
			cells := memmove(elemPtr(d, 0, et), elemPtr(s, 0, et), int64(n)*sizeof(et))
			if cells > 0 {
				panic(memViolation{fmt.Sprintf("raw memory copy (no write barrier) over %d pointer-bearing cells", cells)})
			}
			return bv(uint64(n), 64)
		}
		tmp := make([]Value, n)
		if accessHook != nil {
			accessHook(Ptr{l: s.base.kids[s.off]}, int64(n)*sizeof(et), false)
			accessHook(Ptr{l: d.base.kids[d.off]}, int64(n)*sizeof(et), true)
		}
		for i := 0; i < n; i++ {
			tmp[i] = s.base.kids[s.off+i].load()
		}
		for i := 0; i < n; i++ {
			d.base.kids[d.off+i].store(tmp[i])
		}
		return bv(uint64(n), 64)
	case "delete":
		if !guard.isTrue() {
			panic(engineError{"delete under guard unsupported"})
		}
		e.mapDelete(args[0].(MapV).m, args[1])
		return nil
	case "max", "min":
		a := args[0].(T)
		sg := isSigned(x.Common().Args[0].Type())
		for _, o := range args[1:] {
			b := o.(T)
			c := binop("<", a, b, sg)
			if name == "max" {
				a = tite(c, b, a)
			} else {
				a = tite(c, a, b)
			}
		}
		return a
	case "clear":
		switch a := args[0].(type) {
		case MapV:
			if a.m != nil {
				a.m.keys, a.m.vals = nil, nil
			}
		case SliceV:
			et := x.Common().Args[0].Type().Underlying().(*types.Slice).Elem()
			for i := 0; i < a.len; i++ {
				storeTyped(elemPtr(a, i, et), et, zeroValue(et))
			}
		}
		return nil
	case "Add": // unsafe.Add
		p := args[0]
		k := args[1].(T)
		var off int64
		if k.isC {
			off = sext64(k.c, k.w)
		} else {
			e.site = "unsafe.Add"
			off = int64(e.concretizeVal(k, "unsafe.Add offset"))
		}
		switch q := p.(type) {
		case Ptr:
			if q.l == nil {
				return Ptr{off: q.off + off}
			}
			n := norm(q)
			return Ptr{l: n.l, off: n.off + off}
		}
	case "panic":
		panic(goPanic{e.panicMsg(args[0])})
	case "print", "println":
		return nil
	case "ssa:wrapnilchk":
		p := args[0]
		if q, ok := p.(Ptr); ok && q.l == nil {
			panic(goPanic{"value method called using nil pointer"})
		}
		return p
	case "SliceData":
		s := args[0].(SliceV)
		if s.raw {
			return s.rawp
		}
		if s.base == nil || s.cap == 0 {
			return Ptr{}
		}
		return norm(Ptr{l: s.base.kids[s.off]})
	}
	panic(engineError{"builtin " + name + fmt.Sprintf(" %T", args[0])})
}
