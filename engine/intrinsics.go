package main

import (
	"fmt"
	"os"
	"go/types"
	"strings"

	"golang.org/x/tools/go/ssa"
)

var intrinsicNames = map[string]bool{
	"vU8": true, "vU16": true, "vU32": true, "vU64": true, "vBool": true,
	"vassume": true, "vcheck": true, "vreach": true, "vpanics": true, "vpure": true,
	"vmaporder": true, "vnote": true, "vsymtype": true, "vconcrete": true, "vconcreteInt": true, "vcheckEqInt": true, "vclockbound": true, "vreps": true, "vthorough": true, "vthreads": true, "vmerge": true,
}

func isIntrinsicName(fn *ssa.Function) bool {
	return fn.Pkg != nil && intrinsicNames[fn.Name()] && strings.HasPrefix(fn.Name(), "v")
}

// reflect.Kind numbering
const (
	kInvalid = iota
	kBool
	kInt
	kInt8
	kInt16
	kInt32
	kInt64
	kUint
	kUint8
	kUint16
	kUint32
	kUint64
	kUintptr
	kFloat32
	kFloat64
	kComplex64
	kComplex128
	kArray
	kChan
	kFunc
	kInterface
	kMap
	kPointer
	kSlice
	kString
	kStruct
	kUnsafePointer
)

func kindOf(t types.Type) uint64 {
	switch u := t.Underlying().(type) {
	case *types.Basic:
		switch u.Kind() {
		case types.Bool:
			return kBool
		case types.Int:
			return kInt
		case types.Int8:
			return kInt8
		case types.Int16:
			return kInt16
		case types.Int32:
			return kInt32
		case types.Int64:
			return kInt64
		case types.Uint:
			return kUint
		case types.Uint8:
			return kUint8
		case types.Uint16:
			return kUint16
		case types.Uint32:
			return kUint32
		case types.Uint64:
			return kUint64
		case types.Uintptr:
			return kUintptr
		case types.Float32:
			return kFloat32
		case types.Float64:
			return kFloat64
		case types.Complex64:
			return kComplex64
		case types.Complex128:
			return kComplex128
		case types.String:
			return kString
		case types.UnsafePointer:
			return kUnsafePointer
		}
	case *types.Array:
		return kArray
	case *types.Chan:
		return kChan
	case *types.Signature:
		return kFunc
	case *types.Interface:
		return kInterface
	case *types.Map:
		return kMap
	case *types.Pointer:
		return kPointer
	case *types.Slice:
		return kSlice
	case *types.Struct:
		return kStruct
	}
	return kInvalid
}

func (e *Engine) rtypeIface(t types.Type) Value {
	return IfaceV{typ: rtypeMarker, v: RType{t: t}}
}

var rtypeMarker = types.NewNamed(types.NewTypeName(0, nil, "rtype", nil), types.NewStruct(nil, nil), nil)

func (e *Engine) rtypeMethod(rt RType, name string, args []Value) Value {
	if rt.sym != nil {
		return e.symTypeMethod(rt.sym, name, args)
	}
	t := rt.t
	switch name {
	case "Size":
		return bv(uint64(sizeof(t)), 64)
	case "Kind":
		return bv(kindOf(t), 64)
	case "Name":
		if n, ok := t.(*types.Named); ok {
			return StringV{s: n.Obj().Name()}
		}
		if b, ok := t.(*types.Basic); ok {
			return StringV{s: b.Name()}
		}
		return StringV{s: ""}
	case "String":
		return StringV{s: t.String()}
	case "NumField":
		st, ok := t.Underlying().(*types.Struct)
		if !ok {
			panic(goPanic{"reflect: NumField of non-struct type"})
		}
		return bv(uint64(st.NumFields()), 64)
	case "Field":
		st, ok := t.Underlying().(*types.Struct)
		if !ok {
			panic(goPanic{"reflect: Field of non-struct type"})
		}
		i := int(e.concretizeVal(args[0].(T), "reflect Field index"))
		if i < 0 || i >= st.NumFields() {
			panic(goPanic{"reflect: Field index out of bounds"})
		}
		f := st.Field(i)
		sf := structField(f.Name(), e.rtypeIface(f.Type()), fieldOffsets(st)[i], i, f.Embedded()).(StructV)
		if !f.Exported() && f.Pkg() != nil { // as reflect: PkgPath is set for unexported fields only
			sf.f[1] = StringV{s: f.Pkg().Path()}
		}
		return sf
	case "Elem":
		switch u := t.Underlying().(type) {
		case *types.Array:
			return e.rtypeIface(u.Elem())
		case *types.Slice:
			return e.rtypeIface(u.Elem())
		case *types.Pointer:
			return e.rtypeIface(u.Elem())
		case *types.Map:
			return e.rtypeIface(u.Elem())
		case *types.Chan:
			return e.rtypeIface(u.Elem())
		}
		panic(goPanic{"reflect: Elem of invalid type"})
	case "Len":
		if a, ok := t.Underlying().(*types.Array); ok {
			return bv(uint64(a.Len()), 64)
		}
	case "PkgPath":
		if n, ok := t.(*types.Named); ok && n.Obj().Pkg() != nil {
			return StringV{s: n.Obj().Pkg().Path()}
		}
		return StringV{s: ""}
	}
	panic(engineError{"unmodelled reflect.Type method " + name})
}

// structField builds a reflect.StructField value:
// Name, PkgPath, Type, Tag, Offset, Index, Anonymous
func structField(name string, typ Value, off int64, idx int, anon bool) Value {
	return StructV{f: []Value{
		StringV{s: name}, StringV{s: ""}, typ, StringV{s: ""},
		bv(uint64(off), 64), SliceV{isNil: true}, tbool(anon),
	}}
}

func (e *Engine) symTypeMethod(st *SymType, name string, args []Value) Value {
	switch name {
	case "Kind":
		return st.kind
	case "NumField":
		return bv(uint64(len(st.fields)), 64)
	case "Field":
		i := int(e.concretizeVal(args[0].(T), "reflect Field index"))
		if i < 0 || i >= len(st.fields) {
			panic(goPanic{"reflect: Field index out of bounds"})
		}
		return structField(fmt.Sprintf("F%d", i), IfaceV{typ: rtypeMarker, v: RType{sym: st.fields[i]}}, 0, i, false)
	case "Elem":
		if st.elem == nil {
			// leaves are constrained not to be arrays: this call sits under an infeasible guard
			return IfaceV{typ: rtypeMarker, v: RType{sym: &SymType{kind: bv(kUint8, 64), name: "dummy"}}}
		}
		return IfaceV{typ: rtypeMarker, v: RType{sym: st.elem}}
	case "Name":
		return StringV{s: st.name}
	}
	panic(engineError{"unmodelled reflect.Type method on symbolic type: " + name})
}

func qualName(fn *ssa.Function) string {
	s := fn.String()
	if o := fn.Origin(); o != nil {
		s = o.String()
	}
	return s
}

// intrinsic models harness primitives and external functions.
func (e *Engine) intrinsic(fn *ssa.Function, args []Value, guard T, site *ssa.Call) (Value, bool) {
	name := fn.Name()
	if fn.Pkg != nil && fn.Pkg == e.pkg && intrinsicNames[name] {
		return e.harnessIntrinsic(name, args, guard, site), true
	}
	q := qualName(fn)
	switch q {
	case "(reflect.StructField).IsExported":
		sf := args[0].(StructV)
		return tbool(sf.f[1].(StringV).s == ""), true
	case "reflect.TypeFor":
		targs := fn.TypeArgs()
		return e.rtypeIface(targs[0]), true
	case "reflect.TypeOf":
		iv := args[0].(IfaceV)
		if iv.typ == nil {
			return IfaceV{}, true
		}
		return e.rtypeIface(iv.typ), true
	case "reflect.ArrayOf":
		n := int(e.concretizeVal(args[0].(T), "reflect.ArrayOf length"))
		if n < 0 {
			panic(goPanic{"reflect: negative length passed to ArrayOf"})
		}
		rt := args[1].(IfaceV).v.(RType)
		if rt.sym != nil {
			panic(engineError{"ArrayOf symbolic type"})
		}
		return e.rtypeIface(types.NewArray(rt.t, int64(n))), true
	case "reflect.New":
		rt := args[0].(IfaceV).v.(RType)
		l := newLoc(rt.t)
		return RValue{kind: 2, p: Ptr{l: l}, t: rt.t}, true
	case "(reflect.Value).Elem":
		v := args[0].(RValue)
		if v.kind != 2 {
			panic(goPanic{"reflect: call of reflect.Value.Elem on non-pointer Value"})
		}
		return RValue{kind: 1, p: v.p, t: v.t}, true
	case "(reflect.Value).Addr":
		v := args[0].(RValue)
		if v.kind != 1 {
			panic(goPanic{"reflect.Value.Addr of unaddressable value"})
		}
		return RValue{kind: 2, p: v.p, t: v.t}, true
	case "(reflect.Value).UnsafePointer", "(reflect.Value).Pointer":
		v := args[0].(RValue)
		if v.kind != 2 {
			panic(goPanic{"reflect.Value.UnsafePointer on non-pointer"})
		}
		return v.p, true
	case "(reflect.Value).IsValid":
		return tbool(args[0].(RValue).kind != 0), true
	case "(reflect.Value).Len":
		v := args[0].(RValue)
		switch v.kind {
		case 1:
			if a, ok := v.t.Underlying().(*types.Array); ok {
				return bv(uint64(a.Len()), 64), true
			}
		case 3:
			return bv(uint64(v.n), 64), true
		}
		panic(goPanic{"reflect: call of reflect.Value.Len on invalid Value"})
	case "(reflect.Value).Index":
		v := args[0].(RValue)
		l, off, n, et := e.rvElems(v)
		i := e.concretizeIndex(args[1].(T), true, n, "reflect.Value.Index")
		return RValue{kind: 1, p: Ptr{l: l.kids[off+i]}, t: et}, true
	case "(reflect.Value).Slice":
		v := args[0].(RValue)
		l, off, n, et := e.rvElems(v)
		lo := int(e.concretizeVal(args[1].(T), "reflect.Value.Slice lo"))
		hi := int(e.concretizeVal(args[2].(T), "reflect.Value.Slice hi"))
		if lo < 0 || lo > hi || hi > n {
			panic(goPanic{"reflect.Value.Slice: slice index out of bounds"})
		}
		return RValue{kind: 3, p: Ptr{l: l}, t: et, off: off + lo, n: hi - lo}, true
	case "(reflect.Value).Set":
		d, s := args[0].(RValue), args[1].(RValue)
		if d.kind != 1 || s.kind != 1 {
			panic(goPanic{"reflect.Value.Set on invalid/unaddressable value"})
		}
		if !types.Identical(d.t, s.t) {
			panic(goPanic{"reflect.Set: value of type " + s.t.String() + " is not assignable to type " + d.t.String()})
		}
		storeTyped(d.p, d.t, loadTyped(s.p, s.t))
		return nil, true
	case "(reflect.Value).SetZero":
		d := args[0].(RValue)
		if d.kind != 1 {
			panic(goPanic{"reflect.Value.SetZero on invalid/unaddressable value"})
		}
		storeTyped(d.p, d.t, zeroValue(d.t))
		return nil, true
	case "reflect.Copy":
		d, s := args[0].(RValue), args[1].(RValue)
		dl, doff, dn, det := e.rvElems(d)
		sl, soff, sn, set := e.rvElems(s)
		if !types.Identical(det, set) {
			panic(goPanic{"reflect.Copy: element types differ"})
		}
		n := min(dn, sn)
		tmp := make([]Value, n)
		for i := 0; i < n; i++ {
			tmp[i] = sl.kids[soff+i].load()
		}
		for i := 0; i < n; i++ {
			dl.kids[doff+i].store(tmp[i])
		}
		return bv(uint64(n), 64), true
	case "(*sync.Mutex).Lock", "(*sync.Mutex).Unlock", "(*sync.Mutex).TryLock":
		return e.mutexOp(name, args[0]), true
	case "fmt.Sprintf", "fmt.Sprint", "fmt.Sprintln":
		return StringV{s: "<fmt>", opaque: true}, true
	case "fmt.Errorf", "errors.New":
		return IfaceV{typ: types.Universe.Lookup("error").Type(), v: StringV{s: "<error>", opaque: true}}, true
	case "fmt.Println", "fmt.Printf", "fmt.Print":
		return TupleV{[]Value{bv(0, 64), IfaceV{}}}, true
	case "time.Now":
		return OpaqueV{what: "time", t: e.tick()}, true
	case "time.Since":
		start := args[0].(OpaqueV)
		now := e.tick()
		return binop("-", now, start.t, true), true
	case "math/bits.OnesCount64":
		t := args[0].(T)
		if t.isC {
			n := 0
			for c := t.c; c != 0; c &= c - 1 {
				n++
			}
			return bv(uint64(n), 64), true
		}
		// popcount as a sum of bits (the bit-trick multiplication of the real
		// implementation is solver-hostile); stated as a stub.
		sum := bv(0, 64)
		for i := 0; i < 64; i++ {
			bit := named(T{s: fmt.Sprintf("((_ zero_extend 63) ((_ extract %d %d) %s))", i, i, t.s), w: 64})
			sum = binop("+", sum, bit, false)
		}
		return sum, true
	case "encoding/json.Marshal":
		// ideal-codec stub: the encoded bytes are an opaque blob that remembers the value
		iv, ok := args[0].(IfaceV)
		if !ok || iv.typ == nil {
			panic(engineError{"json.Marshal of nil"})
		}
		arr := newArrayLoc(types.Typ[types.Uint8], 8)
		if e.jsonBlobs == nil {
			e.jsonBlobs = map[*Loc]IfaceV{}
		}
		e.jsonBlobs[arr] = iv
		return TupleV{[]Value{SliceV{base: arr, len: 8, cap: 8}, IfaceV{}}}, true
	case "encoding/json.Unmarshal":
		data, _ := args[0].(SliceV)
		dst := args[1].(IfaceV)
		errV := IfaceV{typ: types.Universe.Lookup("error").Type(), v: StringV{s: "<json error>", opaque: true}}
		blob, ok := e.jsonBlobs[data.base]
		if !ok || data.off != 0 || data.len != 8 {
			return errV, true // bytes that did not come from Marshal: rejected
		}
		p, isPtr := dst.v.(Ptr)
		pt, isPT := dst.typ.Underlying().(*types.Pointer)
		if !isPtr || !isPT || !types.Identical(pt.Elem(), blob.typ) {
			return errV, true
		}
		storeTyped(p, blob.typ, blob.v)
		return IfaceV{}, true
	}
	return nil, false
}

// rvElems returns (array loc, offset, count, elem type) of an array/slice RValue.
func (e *Engine) rvElems(v RValue) (*Loc, int, int, types.Type) {
	switch v.kind {
	case 1:
		a, ok := v.t.Underlying().(*types.Array)
		if !ok {
			panic(goPanic{"reflect: value is not an array or slice"})
		}
		l := resolve(v.p, v.t)
		if l == nil {
			panic(engineError{"reflect array value not resolvable"})
		}
		return l, 0, int(a.Len()), a.Elem()
	case 3:
		return v.p.l, v.off, v.n, v.t
	}
	panic(goPanic{"reflect: call on invalid Value"})
}

// tick returns a fresh symbolic instant not earlier than the previous one.
func (e *Engine) tick() T {
	t := e.nondet("clock", 64)
	e.nondets[len(e.nondets)-1].Internal = true
	// stay far from overflow: 0 <= t < 2^62, non-decreasing
	e.s.assert(binop("<", t, bv(1<<62, 64), false))
	e.s.assert(binop(">=", t, e.clock, false))
	e.clock = t
	if e.clockMax.w == 64 {
		if e.clockBase == nil {
			b := t
			e.clockBase = &b
		} else {
			e.s.assert(binop("<", binop("-", t, *e.clockBase, false), e.clockMax, false))
		}
	}
	return t
}

func (e *Engine) mutexOp(name string, p Value) Value {
	q, ok := p.(Ptr)
	if !ok || q.l == nil {
		panic(goPanic{"nil mutex"})
	}
	l := resolve(q, q.l.typ)
	if l == nil {
		l = q.l
	}
	st, _ := l.v.(OpaqueV)
	switch name {
	case "Lock":
		if st.what == "mutex-locked" {
			panic(goPanic{"deadlock: sync.Mutex locked twice on one path"})
		}
		l.v = OpaqueV{what: "mutex-locked"}
		if e.thr != nil {
			e.thr.held[l] = true
		}
	case "Unlock":
		if st.what != "mutex-locked" {
			panic(goPanic{"sync: unlock of unlocked mutex"})
		}
		l.v = OpaqueV{what: "mutex"}
		if e.thr != nil {
			delete(e.thr.held, l)
		}
	}
	return nil
}

func (e *Engine) harnessIntrinsic(name string, args []Value, guard T, site *ssa.Call) Value {
	lbl := func(i int) string { return args[i].(StringV).s }
	switch name {
	case "vU8":
		return e.nondet(lbl(0), 8)
	case "vU16":
		return e.nondet(lbl(0), 16)
	case "vU32":
		return e.nondet(lbl(0), 32)
	case "vU64":
		return e.nondet(lbl(0), 64)
	case "vBool":
		return e.nondet(lbl(0), 0)
	case "vconcrete", "vconcreteInt":
		// vconcrete(x uint32) uint32: case-split x into a concrete value
		t := args[0].(T)
		e.site = "vconcrete"
		return bv(e.concretizeVal(t, "vconcrete"), t.w)
	case "vassume":
		if e.inPure() {
			panic(engineError{"vassume inside guarded code"})
		}
		c := args[0].(T)
		if c.isFalse() {
			panic(pathAbort{"assume false"})
		}
		if !c.isTrue() {
			e.s.assert(c)
			if r := e.s.check(); r == "unsat" {
				panic(pathAbort{"assume infeasible"})
			}
		}
		return nil
	case "vcheck":
		if e.inPure() {
			panic(engineError{"vcheck inside guarded code"})
		}
		e.check(lbl(0), args[1].(T))
		return nil
	case "vcheckEqInt":
		// prove x == k (k concrete) and, once proven, treat x as the concrete k
		x, k := args[1].(T), args[2].(T)
		if !k.isC {
			panic(engineError{"vcheckEqInt needs a concrete expected value"})
		}
		e.check(lbl(0), teq(x, k))
		if !x.isC {
			e.conc[x.s] = int64(k.c)
		}
		return nil
	case "vreps":
		return bv(1, 64)
	case "vthorough":
		return tbool(e.thorough)
	case "vthreads":
		// vthreads(l string, f1, f2 func()): thread-modular race analysis of two closures
		races := e.runThreads([]ClosureV{args[1].(ClosureV), args[2].(ClosureV)})
		ob := Obligation{Label: lbl(0), PathLen: len(e.taken), Verdict: "unsat"}
		if len(races) > 0 {
			ob.Verdict = "sat"
			if e.s.check() != "unsat" {
				e.recordViolation(lbl(0), "race", strings.Join(races, "; "))
			}
		}
		e.res.Obligations = append(e.res.Obligations, ob)
		return nil
	case "vclockbound":
		// all later clock readings stay within d nanoseconds of the first one
		e.clockMax = args[0].(T)
		e.clockBase = nil
		return nil
	case "vreach":
		e.res.Reached[lbl(0)]++
		if e.res.Reached[lbl(0)] == 1 && e.wantWitness && !e.inPure() {
			if e.s.check() == "sat" {
				w := Witness{Harness: e.harness, Label: lbl(0), Clean: len(e.res.Violations) == 0}
				for _, n := range e.nondets {
					if n.Internal {
						continue
					}
					v, _ := e.s.value(n.Name)
					w.Values = append(w.Values, v)
				}
				e.res.Witnesses = append(e.res.Witnesses, w)
			}
		}
		return nil
	case "vnote":
		return nil
	case "vmaporder":
		e.mapOrder = int(e.concretizeVal(args[0].(T), "vmaporder"))
		return nil
	case "vpure":
		c := args[0].(ClosureV)
		if _, opened := e.enterRegion(true); opened {
			defer e.leaveRegion()
		}
		return e.callPure(c.fn, nil, c.bind, guard)
	case "vmerge":
		// run library code merged (if-converted); a reachable panic is a Go panic, not a spec error
		c := args[0].(ClosureV)
		if e.accOn {
			return e.callPure(c.fn, nil, c.bind, guard)
		}
		ok, opened := e.enterRegion(false)
		if !ok { // retry after the merged run met something that needs forking
			return e.call(c.fn, nil, c.bind)
		}
		if opened {
			defer e.leaveRegion()
		}
		e.accLib = true
		defer func() { e.accLib = false }()
		return e.callPure(c.fn, nil, c.bind, guard)
	case "vpanics":
		if e.inPure() {
			panic(engineError{"vpanics inside guarded code"})
		}
		c := args[0].(ClosureV)
		depth := e.callDepth
		res := func() (r bool) {
			defer func() {
				if x := recover(); x != nil {
					if gp, ok := x.(goPanic); ok {
						r = true
						e.lastPanic = gp.msg
						e.callDepth = depth
						e.pureDepth = 0
						return
					}
					panic(x)
				}
			}()
			e.call(c.fn, nil, c.bind)
			return false
		}()
		return tbool(res)
	case "vsymtype":
		// vsymtype(depth int) reflect.Type: arbitrary type descriptor
		d := int(e.concretizeVal(args[0].(T), "vsymtype depth"))
		return IfaceV{typ: rtypeMarker, v: RType{sym: e.newSymType(d, "t")}}
	}
	panic(engineError{"harness intrinsic " + name})
}

func (e *Engine) newSymType(depth int, name string) *SymType {
	st := &SymType{name: name}
	st.kind = e.nondet("kind_"+name, 64)
	e.s.assert(binop("<=", st.kind, bv(kUnsafePointer, 64), false))
	e.s.assert(binop(">=", st.kind, bv(kBool, 64), false))
	if depth > 0 {
		nf := int(e.concretizeVal(e.boundedNondet("numfield_"+name, 8, 3), "numfield"))
		for i := 0; i < nf; i++ {
			st.fields = append(st.fields, e.newSymType(depth-1, fmt.Sprintf("%s_f%d", name, i)))
		}
		st.elem = e.newSymType(depth-1, name+"_e")
	} else {
		// leaves cannot be struct / array (no children to describe them)
		e.s.assert(tnot(teq(st.kind, bv(kStruct, 64))))
		e.s.assert(tnot(teq(st.kind, bv(kArray, 64))))
	}
	return st
}

func (e *Engine) boundedNondet(label string, w int, max uint64) T {
	t := e.nondet(label, w)
	e.s.assert(binop("<=", t, bv(max, w), false))
	return t
}

// check discharges one obligation: pc ∧ ¬c must be unsat.
func (e *Engine) check(label string, c T) {
	ob := Obligation{Label: label, PathLen: len(e.taken)}
	defer func() { e.res.Obligations = append(e.res.Obligations, ob) }()
	if c.isTrue() {
		ob.Verdict = "trivial"
		return
	}
	q0 := e.s.dur
	var r string
	if c.isFalse() {
		r = "sat"
	} else {
		r = e.s.checkWith(tnot(c))
	}
	ob.Ms = (e.s.dur - q0).Milliseconds()
	ob.Verdict = r
	if e.dumpDir != "" && (r == "sat" || r == "unsat") && !c.isFalse() && e.dumped < e.dumpMax {
		// standalone script of this obligation, for re-discharge by other solvers (tools/xcheck.py)
		e.dumped++
		name := fmt.Sprintf("%s/%s-%d-%d-%s.smt2", e.dumpDir, e.harness, os.Getpid(), e.dumped, r)
		os.WriteFile(name, []byte("; "+e.harness+"/"+label+" expected "+r+"\n"+e.s.script(tnot(c))), 0o644)
	}
	switch r {
	case "unsat":
		return
	case "unknown":
		e.res.Inconclusive = append(e.res.Inconclusive, "check "+label+": solver unknown")
		return
	}
	// sat: extract the model
	e.s.in.WriteString("(push)\n(assert " + tnot(c).s + ")\n")
	if rr := e.s.check(); rr == "sat" {
		e.recordViolation(label, "check", "")
	} else {
		e.res.Inconclusive = append(e.res.Inconclusive, "check "+label+": model extraction gave "+rr)
	}
	e.s.in.WriteString("(pop)\n")
	// continue the path assuming the check held (a concretely false check just continues)
	if c.isFalse() {
		return
	}
	e.s.assert(c)
	if e.s.check() == "unsat" {
		panic(pathAbort{"after failed check"})
	}
}

// recordViolation reads the current model (solver must be in sat state).
func (e *Engine) recordViolation(label, kind, detail string) {
	if detail == "" && e.lastPanic != "" {
		detail = "last caught panic: " + e.lastPanic
	}
	v := Violation{Harness: e.harness, Label: label, Kind: kind, Detail: detail, Prefix: append([]int64{}, e.taken...)}
	for _, n := range e.nondets {
		if n.Internal {
			continue
		}
		val, _ := e.s.value(n.Name)
		v.Nondets = append(v.Nondets, n)
		v.Values = append(v.Values, val)
	}
	e.res.Violations = append(e.res.Violations, v)
}
