package main

import (
	"bufio"
	"encoding/json"
	"flag"
	"fmt"
	"os"
	"os/exec"
	"sort"
	"strings"
	"sync"
	"time"
)

type workerProc struct {
	cmd *exec.Cmd
	in  *bufio.Writer
	out *bufio.Reader
}

func startWorker(c *Config, extra []string) (*workerProc, error) {
	self, _ := os.Executable()
	args := append([]string{"worker"}, extra...)
	cmd := exec.Command(self, args...)
	cmd.Env = append(os.Environ(), "GOMAXPROCS=2", "GOGC=off", "GOMEMLIMIT=1200MiB")
	cmd.Stderr = os.Stderr
	inp, _ := cmd.StdinPipe()
	outp, _ := cmd.StdoutPipe()
	if err := cmd.Start(); err != nil {
		return nil, err
	}
	w := &workerProc{cmd: cmd, in: bufio.NewWriter(inp), out: bufio.NewReaderSize(outp, 1<<20)}
	line, err := w.out.ReadString('\n')
	if err != nil || !strings.Contains(line, "ready") {
		return nil, fmt.Errorf("worker failed to start: %v %s", err, line)
	}
	return w, nil
}

func runMain(args []string) {
	var c Config
	fs := flag.NewFlagSet("run", flag.ExitOnError)
	addCommon(fs, &c)
	var harnesses, outFile string
	var jobs, maxPaths int
	var maxWall time.Duration
	var verbose bool
	fs.StringVar(&harnesses, "harness", "", "comma-separated harness names")
	fs.StringVar(&outFile, "out", "", "write summary JSON here")
	fs.IntVar(&jobs, "j", 8, "worker processes")
	fs.IntVar(&maxPaths, "max-paths", 2000000, "global path budget")
	fs.DurationVar(&maxWall, "max-wall", 0, "wall-clock budget (0 = none)")
	fs.BoolVar(&verbose, "v", false, "progress output")
	fs.Parse(args)
	hs := strings.Split(harnesses, ",")
	extra := []string{"-tier", c.Tier, "-repo", c.Repo, "-harness-dir", c.HarnessDir, "-tags", c.Tags, "-solver", c.Solver,
		fmt.Sprint("-timeout-ms=", c.TimeoutMs), fmt.Sprint("-max-steps=", c.MaxSteps), fmt.Sprint("-max-enum=", c.MaxEnum),
		fmt.Sprint("-unwind=", c.Unwind)}
	if c.NoMerge {
		extra = append(extra, "-no-merge")
	}
	if c.DumpDir != "" {
		os.MkdirAll(c.DumpDir, 0o755)
		extra = append(extra, "-dump-dir", c.DumpDir)
	}
	t0 := time.Now()
	if jobs > len(hs)*64 {
		jobs = len(hs) * 64
	}

	sum := &Summary{Harnesses: hs, Reached: map[string]int{}, PerHarness: map[string]*HStat{}, Labels: map[string]LabelSum{},
		Config: map[string]any{"tags": c.Tags, "solver": c.Solver, "timeout_ms": c.TimeoutMs, "max_steps": c.MaxSteps,
			"max_enum": c.MaxEnum, "unwind": c.Unwind, "no_merge": c.NoMerge, "jobs": jobs}}
	for _, h := range hs {
		sum.PerHarness[h] = &HStat{}
	}
	funcs := map[string]bool{}
	exts := map[string]bool{}
	blocks := map[string]bool{}
	seenViol := map[string]int{}
	seenInc := map[string]bool{}
	seenErr := map[string]bool{}
	seenWit := map[string]int{}

	var mu sync.Mutex
	cond := sync.NewCond(&mu)
	var queue []Request
	for _, h := range hs {
		queue = append(queue, Request{Harness: h, Prefix: []int64{}})
	}
	inflight := 0
	stopped := false
	started := 0

	handle := func(res *PathResult) {
		sum.Paths++
		hst := sum.PerHarness[res.Harness]
		hst.Paths++
		switch res.Status {
		case "done":
			sum.PathsDone++
		case "panic":
			sum.PathsPanic++
			hst.Panics++
		case "abort":
			sum.PathsAbort++
			hst.Aborts++
		case "error":
			k := res.Harness + ": " + res.Detail
			if !seenErr[k] {
				seenErr[k] = true
				sum.Errors = append(sum.Errors, k)
			}
		}
		for _, ob := range res.Obligations {
			sum.Obligations++
			hst.Obligations++
			key := res.Harness + "/" + ob.Label
			ls := sum.Labels[key]
			switch ob.Verdict {
			case "unsat":
				sum.Discharged++
				ls.Unsat++
			case "trivial":
				sum.Discharged++
				sum.Trivial++
				ls.Trivial++
			case "sat":
				sum.Sat++
				ls.Sat++
			default:
				sum.Unknown++
				ls.Unknown++
			}
			sum.Labels[key] = ls
			if len(sum.Samples) < 12 && ob.Verdict != "trivial" && (len(sum.Samples) < 6 || sum.Obligations%37 == 0) {
				ob2 := ob
				ob2.Label = key
				sum.Samples = append(sum.Samples, ob2)
			}
		}
		for _, v := range res.Violations {
			key := v.Harness + "/" + v.Label
			seenViol[key]++
			hst.Violations++
			if seenViol[key] <= 3 { // keep a few counterexamples per signature
				sum.Violations = append(sum.Violations, v)
			}
		}
		for _, w := range res.Witnesses {
			k := w.Harness + "/" + w.Label
			if seenWit[k] < 2 {
				seenWit[k]++
				sum.Witnesses = append(sum.Witnesses, w)
			}
		}
		for k, n := range res.Reached {
			sum.Reached[res.Harness+"/"+k] += n
		}
		for _, f := range res.Funcs {
			funcs[f] = true
		}
		for _, b := range res.Blocks {
			blocks[b] = true
		}
		for _, f := range res.Externals {
			exts[f] = true
		}
		for _, s := range res.Inconclusive {
			k := res.Harness + ": " + s
			if !seenInc[k] {
				seenInc[k] = true
				sum.Inconclusive = append(sum.Inconclusive, k)
			}
		}
		sum.Queries += res.Queries
		sum.QUnsat += res.QUnsat
		sum.QSat += res.QSat
		if res.Status == "done" && len(sum.PathSamples) < 6 && (len(sum.PathSamples) < 2 || sum.Paths%97 == 0) {
			var reached []string
			for k := range res.Reached {
				reached = append(reached, k)
			}
			sort.Strings(reached)
			sum.PathSamples = append(sum.PathSamples, map[string]any{"harness": res.Harness, "decisions": res.Prefix,
				"reached": reached, "obligations": len(res.Obligations), "solver_queries": res.Queries, "infeasible_alternatives_refuted": res.QUnsat})
		}
		sum.SolverS += float64(res.SolverMs) / 1000
		hst.SolverS += float64(res.SolverMs) / 1000
		sum.Steps += int64(res.Steps)
		sum.Merged += res.Merged
	}

	var procMu sync.Mutex
	procs := map[*workerProc]bool{}
	if maxWall > 0 {
		go func() {
			time.Sleep(maxWall)
			mu.Lock()
			if !stopped {
				sum.Inconclusive = append(sum.Inconclusive, fmt.Sprintf("wall budget %s exhausted with %d paths pending (workers killed)", maxWall, len(queue)+inflight))
			}
			stopped = true
			mu.Unlock()
			cond.Broadcast()
			procMu.Lock()
			for w := range procs {
				w.cmd.Process.Kill()
			}
			procMu.Unlock()
		}()
	}
	var wg sync.WaitGroup
	for i := 0; i < jobs; i++ {
		wg.Add(1)
		go func(id int) {
			defer wg.Done()
			var w *workerProc
			for {
				mu.Lock()
				for len(queue) == 0 && inflight > 0 && !stopped {
					cond.Wait()
				}
				if stopped || (len(queue) == 0 && inflight == 0) {
					mu.Unlock()
					cond.Broadcast()
					break
				}
				req := queue[len(queue)-1]
				queue = queue[:len(queue)-1]
				req.Witness = true
				inflight++
				started++
				mu.Unlock()

				if w == nil {
					var err error
					w, err = startWorker(&c, extra)
					if err == nil {
						procMu.Lock()
						procs[w] = true
						procMu.Unlock()
					}
					if err != nil {
						mu.Lock()
						sum.Errors = append(sum.Errors, "worker start: "+err.Error())
						inflight--
						stopped = true
						mu.Unlock()
						cond.Broadcast()
						break
					}
				}
				b, _ := json.Marshal(req)
				w.in.Write(b)
				w.in.WriteByte('\n')
				w.in.Flush()
				line, err := w.out.ReadString('\n')
				var res PathResult
				if err != nil {
					mu.Lock()
					wasStopped := stopped
					mu.Unlock()
					st, det := "error", "worker died: "+err.Error()
					if wasStopped {
						st, det = "abort", "killed at wall budget"
					}
					res = PathResult{Harness: req.Harness, Prefix: req.Prefix, Status: st, Detail: det}
					procMu.Lock()
					delete(procs, w)
					procMu.Unlock()
					w.cmd.Process.Kill()
					w.cmd.Wait()
					w = nil
				} else if err := json.Unmarshal([]byte(line), &res); err != nil {
					res = PathResult{Harness: req.Harness, Prefix: req.Prefix, Status: "error", Detail: "bad worker reply: " + err.Error()}
				}
				mu.Lock()
				if res.Status == "retry" && res.RetryMergeLimit > 0 && (req.MergeLimit == 0 || res.RetryMergeLimit < req.MergeLimit) {
					// run the same path again with the offending merge region (and later ones) forking
					queue = append(queue, Request{Harness: req.Harness, Prefix: req.Prefix, MergeLimit: res.RetryMergeLimit})
					sum.Retries++
					for _, b := range res.Blocks {
						blocks[b] = true
					}
					inflight--
					mu.Unlock()
					cond.Broadcast()
					continue
				}
				if res.Status == "retry" {
					res.Status = "error"
				}
				handle(&res)
				for _, sp := range res.Siblings {
					queue = append(queue, Request{Harness: req.Harness, Prefix: sp, MergeLimit: req.MergeLimit})
				}
				inflight--
				if sum.Paths >= maxPaths {
					if !stopped {
						sum.Inconclusive = append(sum.Inconclusive, fmt.Sprintf("path budget %d exhausted with %d paths pending", maxPaths, len(queue)+inflight))
					}
					stopped = true
				}
				if maxWall > 0 && time.Since(t0) > maxWall {
					if !stopped {
						sum.Inconclusive = append(sum.Inconclusive, fmt.Sprintf("wall budget %s exhausted with %d paths pending", maxWall, len(queue)+inflight))
					}
					stopped = true
				}
				if verbose && sum.Paths%50 == 0 {
					fmt.Fprintf(os.Stderr, "  .. paths=%d queue=%d inflight=%d obligations=%d sat=%d solver=%.1fs wall=%.1fs\n",
						sum.Paths, len(queue), inflight, sum.Obligations, sum.Sat, sum.SolverS, time.Since(t0).Seconds())
				}
				mu.Unlock()
				cond.Broadcast()
			}
			if w != nil {
				w.in.Flush()
				w.cmd.Process.Kill()
				w.cmd.Wait()
			}
		}(i)
	}
	wg.Wait()
	sum.WallS = time.Since(t0).Seconds()
	for f := range funcs {
		sum.Funcs = append(sum.Funcs, f)
	}
	sort.Strings(sum.Funcs)
	for b := range blocks {
		sum.Blocks = append(sum.Blocks, b)
	}
	sort.Strings(sum.Blocks)
	for f := range exts {
		sum.Externals = append(sum.Externals, f)
	}
	sort.Strings(sum.Externals)
	sort.Strings(sum.Inconclusive)
	sort.Strings(sum.Errors)
	sort.Slice(sum.Violations, func(i, j int) bool {
		a, b := sum.Violations[i], sum.Violations[j]
		if a.Harness != b.Harness {
			return a.Harness < b.Harness
		}
		return a.Label < b.Label
	})
	b, _ := json.MarshalIndent(sum, "", " ")
	if outFile != "" {
		os.WriteFile(outFile, b, 0o644)
	} else {
		os.Stdout.Write(b)
		fmt.Println()
	}
	if verbose || outFile != "" {
		fmt.Fprintf(os.Stderr, "gosym: harnesses=%d paths=%d obligations=%d discharged=%d sat=%d unknown=%d violations=%d errors=%d inconclusive=%d queries=%d solver=%.1fs wall=%.1fs\n",
			len(hs), sum.Paths, sum.Obligations, sum.Discharged, sum.Sat, sum.Unknown, len(sum.Violations), len(sum.Errors), len(sum.Inconclusive), sum.Queries, sum.SolverS, sum.WallS)
	}
	if len(sum.Errors) > 0 {
		os.Exit(3)
	}
}
