package main

import (
	"fmt"
	"strings"

	"golang.org/x/tools/go/ssa"
)

// IteV is a guarded choice between two values that have no term representation.
type IteV struct {
	c    T
	a, b Value
}

// MPtr is a guarded set of concrete pointers (a symbolic pointer).
type MPtr struct {
	cands []Ptr
	conds []T
}

// ---- post-dominators
type pdomInfo struct{ ipdom map[*ssa.BasicBlock]*ssa.BasicBlock }

var pdomCache = map[*ssa.Function]*pdomInfo{}

func postDoms(fn *ssa.Function) *pdomInfo {
	if p, ok := pdomCache[fn]; ok {
		return p
	}
	n := len(fn.Blocks)
	full := make([]bool, n+1)
	for i := range full {
		full[i] = true
	}
	pd := make([][]bool, n+1)
	for i := 0; i <= n; i++ {
		pd[i] = append([]bool{}, full...)
	}
	pd[n] = make([]bool, n+1)
	pd[n][n] = true
	succs := func(b *ssa.BasicBlock) []int {
		if len(b.Succs) == 0 {
			return []int{n}
		}
		r := []int{}
		for _, s := range b.Succs {
			r = append(r, s.Index)
		}
		return r
	}
	changed := true
	for changed {
		changed = false
		for i := n - 1; i >= 0; i-- {
			b := fn.Blocks[i]
			nw := append([]bool{}, full...)
			for _, s := range succs(b) {
				for k := range nw {
					nw[k] = nw[k] && pd[s][k]
				}
			}
			nw[i] = true
			for k := range nw {
				if nw[k] != pd[i][k] {
					changed = true
				}
			}
			pd[i] = nw
		}
	}
	info := &pdomInfo{ipdom: map[*ssa.BasicBlock]*ssa.BasicBlock{}}
	for i := 0; i < n; i++ {
		var best *ssa.BasicBlock
		for k := 0; k < n; k++ {
			if k == i || !pd[i][k] {
				continue
			}
			ok := true
			for j := 0; j < n; j++ {
				if j == i || j == k || !pd[i][j] {
					continue
				}
				if !pd[k][j] {
					ok = false
				}
			}
			if ok {
				best = fn.Blocks[k]
			}
		}
		info.ipdom[fn.Blocks[i]] = best // nil => virtual exit
	}
	pdomCache[fn] = info
	return info
}

type arrival struct {
	from *ssa.BasicBlock
	cond T
	snap map[*ssa.Phi]Value // phi-edge values captured when leaving 'from'
}
type retRec struct {
	cond T
	val  Value
}

func (e *Engine) phiFromArrivals(f *frame, b *ssa.BasicBlock, x *ssa.Phi, arr []arrival) Value {
	var val Value
	first := true
	for i := len(arr) - 1; i >= 0; i-- {
		var v Value
		if sv, ok := arr[i].snap[x]; ok {
			v = sv
		} else {
			for k, p := range b.Preds {
				if p == arr[i].from {
					v = e.get(f, x.Edges[k])
				}
			}
		}
		if first {
			val, first = v, false
		} else {
			val = e.iteVal(arr[i].cond, v, val)
		}
	}
	return val
}

// callPure executes fn without forking: symbolic branches are merged at
// post-dominators (if-conversion), stores are guarded.
func (e *Engine) callPure(fn *ssa.Function, args []Value, bind []Value, guard T) Value {
	if fn.Blocks == nil {
		panic(engineError{"no body (pure): " + fn.String()})
	}
	e.funcs[fn.String()] = true
	if !e.accOn {
		e.accOn = true
		e.panicAcc = tbool(false)
		e.panicMsgs = nil
		defer e.flushPanicAcc()
	}
	e.pureDepth++
	defer func() { e.pureDepth-- }()
	e.callDepth++
	if e.callDepth > 200 {
		panic(pathAbort{"call depth exceeded"})
	}
	defer func() { e.callDepth-- }()
	f := &frame{fn: fn, env: make(map[ssa.Value]Value, 32), bind: bind, visit: map[*ssa.BasicBlock]int{}}
	for i, p := range fn.Params {
		f.env[p] = args[i]
	}
	e.pureRegion(f, fn.Blocks[0], []arrival{{nil, guard, nil}}, nil)
	if len(f.rets) == 0 {
		return nil
	}
	res := f.rets[len(f.rets)-1].val
	for i := len(f.rets) - 2; i >= 0; i-- {
		res = e.iteVal(f.rets[i].cond, f.rets[i].val, res)
	}
	return res
}

func (e *Engine) iteVal(c T, a, b Value) Value {
	if c.isTrue() {
		return a
	}
	if c.isFalse() {
		return b
	}
	// nil = "no value": the route ended in a (guarded) panic before producing one
	if a == nil {
		return b
	}
	if b == nil {
		return a
	}
	switch x := a.(type) {
	case T:
		return tite(c, x, b.(T))
	case StructV:
		r := StructV{make([]Value, len(x.f))}
		for i := range x.f {
			r.f[i] = e.iteVal(c, x.f[i], b.(StructV).f[i])
		}
		return r
	case ArrayV:
		r := ArrayV{make([]Value, len(x.e))}
		for i := range x.e {
			r.e[i] = e.iteVal(c, x.e[i], b.(ArrayV).e[i])
		}
		return r
	case TupleV:
		r := TupleV{make([]Value, len(x.v))}
		for i := range x.v {
			r.v[i] = e.iteVal(c, x.v[i], b.(TupleV).v[i])
		}
		return r
	case Ptr:
		if y, ok := b.(Ptr); ok {
			p, q := norm(x), norm(y)
			if p.l == q.l && p.off == q.off {
				return x
			}
		}
		return e.mptrIte(c, a, b)
	case MPtr:
		return e.mptrIte(c, a, b)
	case IteV:
		return IteV{c: c, a: a, b: b}
	case IfaceV:
		y, ok := b.(IfaceV)
		if !ok {
			return IteV{c: c, a: a, b: b}
		}
		if x.typ == nil && y.typ == nil {
			return x
		}
		if x.typ != nil && y.typ != nil {
			if eq := e.valEq(x, y); eq.isTrue() {
				return x
			}
		}
	case SliceV:
		if y, ok := b.(SliceV); ok && x == y {
			return x
		}
	case MapV:
		if y, ok := b.(MapV); ok && x == y {
			return x
		}
	case StringV:
		if y, ok := b.(StringV); ok && x == y {
			return x
		}
		return StringV{s: "<merged>", opaque: true}
	case ClosureV:
		if y, ok := b.(ClosureV); ok && x.fn == y.fn && len(x.bind) == 0 && len(y.bind) == 0 {
			return x
		}
	case RValue:
		if y, ok := b.(RValue); ok && x == y {
			return x
		}
	case OpaqueV:
		return x
	}
	switch a.(type) {
	case IfaceV, SliceV, MapV, ClosureV, StringV, RValue, IteV:
		return IteV{c: c, a: a, b: b}
	}
	panic(engineError{fmt.Sprintf("cannot merge values of type %T under a symbolic guard at %s", a, e.where())})
}

func (e *Engine) mptrIte(c T, a, b Value) Value {
	m := MPtr{}
	add := func(v Value, g T) {
		switch x := v.(type) {
		case Ptr:
			m.cands = append(m.cands, x)
			m.conds = append(m.conds, g)
		case MPtr:
			for i := range x.cands {
				m.cands = append(m.cands, x.cands[i])
				m.conds = append(m.conds, tand(g, x.conds[i]))
			}
		default:
			panic(engineError{fmt.Sprintf("mptrIte with %T", v)})
		}
	}
	add(a, c)
	add(b, tnot(c))
	return m
}

// pureRegion runs from block b (entered via arrivals) until reaching stop;
// returns the arrivals at stop.
func (e *Engine) pureRegion(f *frame, b *ssa.BasicBlock, arr []arrival, stop *ssa.BasicBlock) []arrival {
	e.pureDepth++
	defer func() { e.pureDepth-- }()
	var override *T // exact guard when all routes of a diamond re-join
	for {
		if b == stop {
			if b != nil {
				for i := range arr {
					if arr[i].snap != nil {
						continue
					}
					arr[i].snap = map[*ssa.Phi]Value{}
					for _, ins := range b.Instrs {
						phi, ok := ins.(*ssa.Phi)
						if !ok {
							break
						}
						for k, p := range b.Preds {
							if p == arr[i].from {
								arr[i].snap[phi] = e.get(f, phi.Edges[k])
							}
						}
					}
				}
			}
			return arr
		}
		guard := tbool(false)
		if override != nil {
			guard = *override
			override = nil
		} else {
			for _, a := range arr {
				guard = tor(guard, a.cond)
			}
		}
		if guard.isFalse() {
			return nil
		}
		e.cover(b)
		f.visit[b]++
		if f.visit[b] > e.unwind*64 {
			panic(pathAbort{fmt.Sprintf("unwinding bound exceeded in guarded code %s block %d", f.fn.Name(), b.Index)})
		}
		var next *ssa.BasicBlock
		for _, ins := range b.Instrs {
			e.step()
			e.curIns = ins
			switch x := ins.(type) {
			case *ssa.Phi:
				f.env[x] = e.phiFromArrivals(f, b, x, arr)
			case *ssa.If:
				c := e.get(f, x.Cond).(T)
				if c.isC {
					if c.c == 1 {
						next = b.Succs[0]
					} else {
						next = b.Succs[1]
					}
					arr = []arrival{{b, guard, nil}}
					break
				}
				join := postDoms(f.fn).ipdom[b]
				if f.active == nil {
					f.active = map[*ssa.BasicBlock]int{}
				}
				if f.active[b] > 0 && join != nil {
					// The same symbolic branch is re-entered from inside its own region and the routes
					// re-join before the function ends: a loop whose exit condition is symbolic. Routes
					// leaving at different iterations would need their loop-carried registers merged;
					// this executor does not do that: fail closed. (Early returns out of a loop are
					// fine: every route ends in its own return with the registers of its own iteration.)
					panic(engineError{fmt.Sprintf("loop with a symbolic exit condition in merged code: %s @ %s",
						f.fn.Name(), e.prog.Fset.Position(x.Cond.Pos()))})
				}
				f.active[b]++
				nret, nesc := len(f.rets), f.escapes
				// both routes start from the same register state
				saved := make(map[ssa.Value]Value, len(f.env)+8)
				for k, v := range f.env {
					saved[k] = v
				}
				a0 := e.pureRegion(f, b.Succs[0], []arrival{{b, tand(guard, c), nil}}, join)
				env0 := f.env
				f.env = saved
				a1 := e.pureRegion(f, b.Succs[1], []arrival{{b, tand(guard, tnot(c)), nil}}, join)
				// registers defined on the first route only stay visible (phis use arrival snapshots)
				for k, v := range env0 {
					if _, ok := f.env[k]; !ok {
						f.env[k] = v
					}
				}
				f.active[b]--
				arr = append(a0, a1...)
				if len(f.rets) == nret && f.escapes == nesc {
					g := guard
					override = &g // no route left the region: the join runs under the entry guard
				}
				if join == nil {
					return nil
				}
				next = join
			case *ssa.Jump:
				next = b.Succs[0]
				arr = []arrival{{b, guard, nil}}
			case *ssa.Return:
				f.rets = append(f.rets, retRec{guard, e.retVal(f, x)})
				return nil
			case *ssa.Panic:
				f.escapes++
				e.purePanic(guard, e.panicMsg(e.get(f, x.X)))
				return nil
			case *ssa.Store:
				e.doStore(e.get(f, x.Addr), x.Val.Type(), e.get(f, x.Val), guard)
			case *ssa.MapUpdate:
				m := e.get(f, x.Map).(MapV)
				e.mapStore(m.m, e.get(f, x.Key), e.get(f, x.Value), guard)
			case *ssa.DebugRef, *ssa.RunDefers:
			case ssa.Value:
				f.env[x] = e.eval(f, x, guard)
			default:
				panic(engineError{fmt.Sprintf("pure: unsupported instr %T", ins)})
			}
		}
		b = next
	}
}

var mergeable = map[*ssa.Function]int{} // 0 unknown, 1 yes, 2 no

// isMergeable: acyclic, no stores, no panics, only calls to mergeable functions.
func isMergeable(fn *ssa.Function) bool {
	if fn == nil || fn.Blocks == nil {
		return false
	}
	if v := mergeable[fn]; v != 0 {
		return v == 1
	}
	mergeable[fn] = 2 // recursion guard
	if hasCycle(fn) {
		return false
	}
	for _, b := range fn.Blocks {
		for _, ins := range b.Instrs {
			switch x := ins.(type) {
			case *ssa.Store, *ssa.MapUpdate, *ssa.Panic, *ssa.MakeClosure, *ssa.MakeMap, *ssa.MakeSlice, *ssa.Range, *ssa.Next, *ssa.Lookup, *ssa.IndexAddr, *ssa.Index, *ssa.Slice, *ssa.TypeAssert:
				if ia, ok := x.(*ssa.IndexAddr); ok {
					if _, isC := ia.Index.(*ssa.Const); isC {
						continue
					}
				}
				return false
			case *ssa.Call:
				cc := x.Common()
				if cc.IsInvoke() {
					return false
				}
				if bi, ok := cc.Value.(*ssa.Builtin); ok {
					if bi.Name() == "len" || bi.Name() == "cap" {
						continue
					}
					return false
				}
				if sf := cc.StaticCallee(); sf == nil || isIntrinsicName(sf) || !isMergeable(sf) {
					return false
				}
			}
		}
	}
	mergeable[fn] = 1
	return true
}

var simpleCache = map[[2]*ssa.BasicBlock]int{}

// simpleRegion: all blocks strictly between b and join are acyclic and side-effect free.
func simpleRegion(fn *ssa.Function, b, join *ssa.BasicBlock) bool {
	key := [2]*ssa.BasicBlock{b, join}
	if v := simpleCache[key]; v != 0 {
		return v == 1
	}
	simpleCache[key] = 2
	seen := map[*ssa.BasicBlock]bool{}
	var walk func(x *ssa.BasicBlock, depth int) bool
	walk = func(x *ssa.BasicBlock, depth int) bool {
		if x == join {
			return true
		}
		if x == b || depth > 16 {
			return false
		}
		if seen[x] {
			return true
		}
		seen[x] = true
		for _, ins := range x.Instrs {
			switch c := ins.(type) {
			case *ssa.Store, *ssa.MapUpdate, *ssa.Panic, *ssa.Return, *ssa.MakeClosure, *ssa.MakeMap, *ssa.MakeSlice, *ssa.Range, *ssa.Next, *ssa.Lookup, *ssa.Alloc, *ssa.IndexAddr, *ssa.Index, *ssa.Slice, *ssa.TypeAssert, *ssa.UnOp:
				if u, ok := c.(*ssa.UnOp); ok {
					if u.Op.String() != "*" {
						continue
					}
				}
				return false
			case *ssa.Call:
				cc := c.Common()
				if cc.IsInvoke() {
					return false
				}
				if _, ok := cc.Value.(*ssa.Builtin); ok {
					return false
				}
				sf := cc.StaticCallee()
				if sf == nil || isIntrinsicName(sf) || !isMergeable(sf) {
					return false
				}
			}
		}
		for _, s := range x.Succs {
			if !walk(s, depth+1) {
				return false
			}
		}
		return true
	}
	for _, s := range b.Succs {
		if !walk(s, 0) {
			return false
		}
	}
	simpleCache[key] = 1
	return true
}

// acyclicRegion reports whether no block between b (exclusive) and join can
// reach b again or loop among themselves.
func acyclicRegion(fn *ssa.Function, b, join *ssa.BasicBlock) bool {
	color := map[*ssa.BasicBlock]int{}
	var dfs func(x *ssa.BasicBlock) bool
	dfs = func(x *ssa.BasicBlock) bool {
		if x == join {
			return true
		}
		if x == b {
			return false
		}
		if color[x] == 1 {
			return false
		}
		if color[x] == 2 {
			return true
		}
		color[x] = 1
		for _, s := range x.Succs {
			if !dfs(s) {
				return false
			}
		}
		color[x] = 2
		return true
	}
	for _, s := range b.Succs {
		if !dfs(s) {
			return false
		}
	}
	return true
}

func hasCycle(fn *ssa.Function) bool {
	color := map[*ssa.BasicBlock]int{}
	var dfs func(b *ssa.BasicBlock) bool
	dfs = func(b *ssa.BasicBlock) bool {
		color[b] = 1
		for _, s := range b.Succs {
			if color[s] == 1 {
				return true
			}
			if color[s] == 0 && dfs(s) {
				return true
			}
		}
		color[b] = 2
		return false
	}
	return dfs(fn.Blocks[0])
}

// flushPanicAcc discharges, in one query, that no panic (bounds, nil, explicit)
// was reachable inside the merged computation that just ended.
func (e *Engine) flushPanicAcc() {
	if r := recover(); r != nil {
		e.accOn = false
		panic(r)
	}
	acc := e.panicAcc
	e.panicAcc = tbool(false)
	e.accOn = false
	if acc.isFalse() {
		return
	}
	if e.accLib {
		e.site = "panic condition of merged library code"
		lib := e.accLib
		e.accLib = false
		if e.branch(acc) {
			panic(goPanic{"panic in merged library code: " + strings.Join(e.panicMsgs, "; ")})
		}
		e.accLib = lib
		return
	}
	if e.s.checkWith(acc) != "unsat" {
		panic(engineError{"panic reachable in guarded (pure) code: " + strings.Join(e.panicMsgs, "; ")})
	}
}
