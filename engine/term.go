package main

import (
	"fmt"
	"strconv"
	"strings"
)

// T is an SMT term: Bool (w==0) or bit-vector of width w (1..64).
// Terms are strings; long terms are given solver-side names (define-fun) so
// that term text stays linear in the size of the computation.
type T struct {
	s   string
	w   int
	isC bool
	c   uint64
	// parts, when non-nil, lists byte terms (little endian) whose
	// concatenation equals this term; lets extract-of-concat simplify.
	parts []T
}

func wmask(w int) uint64 {
	if w >= 64 {
		return ^uint64(0)
	}
	return (uint64(1) << uint(w)) - 1
}
var bvCache [65][2048]string

func bv(c uint64, w int) T {
	c &= wmask(w)
	if c < 2048 && w <= 64 {
		s := bvCache[w][c]
		if s == "" {
			s = "(_ bv" + strconv.FormatUint(c, 10) + " " + strconv.Itoa(w) + ")"
			bvCache[w][c] = s
		}
		return T{s: s, w: w, isC: true, c: c}
	}
	return T{s: "(_ bv" + strconv.FormatUint(c, 10) + " " + strconv.Itoa(w) + ")", w: w, isC: true, c: c}
}
func tbool(b bool) T {
	if b {
		return T{s: "true", w: 0, isC: true, c: 1}
	}
	return T{s: "false", w: 0, isC: true, c: 0}
}
func (t T) isTrue() bool  { return t.isC && t.w == 0 && t.c == 1 }
func (t T) isFalse() bool { return t.isC && t.w == 0 && t.c == 0 }

// curSolver is the solver terms are named in (one engine per process).
var curSolver *Solver

func app(op string, w int, args ...T) T {
	ss := make([]string, len(args))
	for i, a := range args {
		ss[i] = a.s
	}
	return named(T{s: "(" + op + " " + strings.Join(ss, " ") + ")", w: w})
}

// named gives long terms a solver-side name.
func named(t T) T {
	if curSolver == nil || len(t.s) < 40 {
		return t
	}
	return T{s: curSolver.define(t), w: t.w, parts: t.parts}
}
func sext64(c uint64, w int) int64 {
	if w >= 64 {
		return int64(c)
	}
	if c&(1<<uint(w-1)) != 0 {
		return int64(c | ^wmask(w))
	}
	return int64(c)
}

func tnot(a T) T {
	if a.isC {
		return tbool(a.c == 0)
	}
	if strings.HasPrefix(a.s, "(not ") {
		return T{s: a.s[5 : len(a.s)-1], w: 0}
	}
	return T{s: "(not " + a.s + ")", w: 0}
}
func tand(a, b T) T {
	if a.isFalse() || b.isFalse() {
		return tbool(false)
	}
	if a.isTrue() {
		return b
	}
	if b.isTrue() {
		return a
	}
	if a.s == b.s {
		return a
	}
	return app("and", 0, a, b)
}
func tor(a, b T) T {
	if a.isTrue() || b.isTrue() {
		return tbool(true)
	}
	if a.isFalse() {
		return b
	}
	if b.isFalse() {
		return a
	}
	if a.s == b.s {
		return a
	}
	return app("or", 0, a, b)
}
func timplies(a, b T) T { return tor(tnot(a), b) }
func tite(c, a, b T) T {
	if c.isTrue() {
		return a
	}
	if c.isFalse() {
		return b
	}
	if a.s == b.s {
		return a
	}
	if a.w == 0 {
		if a.isTrue() && b.isFalse() {
			return c
		}
		if a.isFalse() && b.isTrue() {
			return tnot(c)
		}
		return tor(tand(c, a), tand(tnot(c), b))
	}
	return app("ite", a.w, c, a, b)
}
func teq(a, b T) T {
	if a.w != b.w {
		panic(fmt.Sprintf("teq width mismatch %d %d: %s %s", a.w, b.w, a.s, b.s))
	}
	if a.isC && b.isC {
		return tbool(a.c == b.c)
	}
	if a.s == b.s {
		return tbool(true)
	}
	if a.w == 0 {
		if a.isC {
			if a.c == 1 {
				return b
			}
			return tnot(b)
		}
		if b.isC {
			if b.c == 1 {
				return a
			}
			return tnot(a)
		}
	}
	return app("=", 0, a, b)
}

func binop(op string, a, b T, signed bool) T {
	w := a.w
	if a.isC && b.isC {
		x, y := a.c, b.c
		sx, sy := sext64(x, w), sext64(y, w)
		switch op {
		case "+":
			return bv(x+y, w)
		case "-":
			return bv(x-y, w)
		case "*":
			return bv(x*y, w)
		case "&":
			if w == 0 {
				return tbool(x&y == 1)
			}
			return bv(x&y, w)
		case "|":
			if w == 0 {
				return tbool(x|y == 1)
			}
			return bv(x|y, w)
		case "^":
			if w == 0 {
				return tbool(x != y)
			}
			return bv(x^y, w)
		case "&^":
			return bv(x&^y, w)
		case "<<":
			if y >= uint64(w) {
				return bv(0, w)
			}
			return bv(x<<y, w)
		case ">>":
			if signed {
				if y >= uint64(w) {
					y = uint64(w - 1)
				}
				return bv(uint64(sx>>y), w)
			}
			if y >= uint64(w) {
				return bv(0, w)
			}
			return bv(x>>y, w)
		case "/":
			if y != 0 {
				if signed {
					return bv(uint64(sx/sy), w)
				}
				return bv(x/y, w)
			}
		case "%":
			if y != 0 {
				if signed {
					return bv(uint64(sx%sy), w)
				}
				return bv(x%y, w)
			}
		case "==":
			return tbool(x == y)
		case "!=":
			return tbool(x != y)
		case "<":
			if signed {
				return tbool(sx < sy)
			}
			return tbool(x < y)
		case "<=":
			if signed {
				return tbool(sx <= sy)
			}
			return tbool(x <= y)
		case ">":
			if signed {
				return tbool(sx > sy)
			}
			return tbool(x > y)
		case ">=":
			if signed {
				return tbool(sx >= sy)
			}
			return tbool(x >= y)
		}
	}
	// cheap algebraic identities
	switch op {
	case "+", "|", "^":
		if w > 0 {
			if a.isC && a.c == 0 {
				return b
			}
			if b.isC && b.c == 0 {
				return a
			}
		}
	case "-", "<<", ">>":
		if b.isC && b.c == 0 {
			return a
		}
	case "*":
		if a.isC && a.c == 1 {
			return b
		}
		if b.isC && b.c == 1 {
			return a
		}
		if (a.isC && a.c == 0) || (b.isC && b.c == 0) {
			return bv(0, w)
		}
	case "&":
		if w > 0 && ((a.isC && a.c == 0) || (b.isC && b.c == 0)) {
			return bv(0, w)
		}
	}
	switch op {
	case "+":
		return app("bvadd", w, a, b)
	case "-":
		return app("bvsub", w, a, b)
	case "*":
		return app("bvmul", w, a, b)
	case "&":
		if w == 0 {
			return tand(a, b)
		}
		return app("bvand", w, a, b)
	case "|":
		if w == 0 {
			return tor(a, b)
		}
		return app("bvor", w, a, b)
	case "^":
		if w == 0 {
			return tnot(teq(a, b))
		}
		return app("bvxor", w, a, b)
	case "&^":
		return app("bvand", w, a, app("bvnot", w, b))
	case "<<":
		return app("bvshl", w, a, b) // SMT bvshl yields 0 for shift>=w, same as Go
	case ">>":
		if signed {
			return app("bvashr", w, a, b)
		}
		return app("bvlshr", w, a, b)
	case "/":
		if signed {
			return app("bvsdiv", w, a, b)
		}
		return app("bvudiv", w, a, b)
	case "%":
		if signed {
			return app("bvsrem", w, a, b)
		}
		return app("bvurem", w, a, b)
	case "==":
		return teq(a, b)
	case "!=":
		return tnot(teq(a, b))
	case "<":
		if signed {
			return app("bvslt", 0, a, b)
		}
		return app("bvult", 0, a, b)
	case "<=":
		if signed {
			return app("bvsle", 0, a, b)
		}
		return app("bvule", 0, a, b)
	case ">":
		if signed {
			return app("bvsgt", 0, a, b)
		}
		return app("bvugt", 0, a, b)
	case ">=":
		if signed {
			return app("bvsge", 0, a, b)
		}
		return app("bvuge", 0, a, b)
	}
	panic("binop " + op)
}

// tconv converts integer a (signedness of the source type) to width w.
func tconv(a T, w int, srcSigned bool) T {
	if a.w == w {
		return a
	}
	if a.isC {
		if srcSigned {
			return bv(uint64(sext64(a.c, a.w)), w)
		}
		return bv(a.c, w)
	}
	if w < a.w {
		return textract(a, w-1, 0)
	}
	if srcSigned {
		return named(T{s: fmt.Sprintf("((_ sign_extend %d) %s)", w-a.w, a.s), w: w})
	}
	return named(T{s: fmt.Sprintf("((_ zero_extend %d) %s)", w-a.w, a.s), w: w})
}

// textract returns bits hi..lo of a.
func textract(a T, hi, lo int) T {
	w := hi - lo + 1
	if w == a.w {
		return a
	}
	if a.isC {
		return bv(a.c>>uint(lo), w)
	}
	if a.parts != nil && lo%8 == 0 && w%8 == 0 {
		return tconcatBytes(a.parts[lo/8 : lo/8+w/8])
	}
	return named(T{s: fmt.Sprintf("((_ extract %d %d) %s)", hi, lo, a.s), w: w})
}

// tbytes splits a bit-vector (width multiple of 8) into little-endian bytes.
func tbytes(a T) []T {
	n := a.w / 8
	if a.parts != nil {
		return a.parts
	}
	r := make([]T, n)
	for i := 0; i < n; i++ {
		r[i] = textract(a, 8*i+7, 8*i)
	}
	return r
}

// tconcatBytes builds a bit-vector from little-endian byte terms.
func tconcatBytes(bs []T) T {
	if len(bs) == 1 {
		return bs[0]
	}
	allC := true
	for _, b := range bs {
		if !b.isC {
			allC = false
		}
	}
	w := 8 * len(bs)
	if allC {
		var c uint64
		for i, b := range bs {
			c |= b.c << uint(8*i)
		}
		return bv(c, w)
	}
	// recognise bytes that are consecutive extracts of one term
	if base, ok := sameBase(bs); ok {
		return base
	}
	ss := make([]string, len(bs))
	for i := range bs {
		ss[len(bs)-1-i] = bs[i].s
	}
	t := named(T{s: "(concat " + strings.Join(ss, " ") + ")", w: w})
	t.parts = append([]T{}, bs...)
	return t
}

// sameBase detects bs[i] == extract(8i+7, 8i, X) for one X of width 8*len(bs).
func sameBase(bs []T) (T, bool) {
	var base string
	for i, b := range bs {
		pre := fmt.Sprintf("((_ extract %d %d) ", 8*i+7, 8*i)
		if !strings.HasPrefix(b.s, pre) {
			return T{}, false
		}
		x := b.s[len(pre) : len(b.s)-1]
		if i == 0 {
			base = x
		} else if x != base {
			return T{}, false
		}
	}
	if curSolver != nil {
		if w, ok := curSolver.widthOf(base); ok && w == 8*len(bs) {
			return T{s: base, w: w}, true
		}
	}
	return T{}, false
}
