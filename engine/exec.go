package main

import (
	"fmt"
	"strconv"
	"go/constant"
	"go/token"
	"go/types"
	"sort"
	"strings"

	"golang.org/x/tools/go/ssa"
)

type goPanic struct{ msg string }
type pathAbort struct{ why string }
type engineError struct{ msg string }

// Nondet is one symbolic input created on the current path.
type Nondet struct {
	Name     string `json:"name"`
	Label    string `json:"label"`
	W        int    `json:"w"`
	Internal bool   `json:"internal,omitempty"` // created by an engine stub (clock), not consumed natively
}

type Violation struct {
	Harness string   `json:"harness"`
	Label   string   `json:"label"`
	Kind    string   `json:"kind"` // check | panic | memory-safety
	Detail  string   `json:"detail,omitempty"`
	Nondets []Nondet `json:"nondets"`
	Values  []uint64 `json:"values"`
	Prefix  []int64  `json:"prefix"`
}

// Witness is a concrete input vector reaching a vreach label (vacuity witness,
// replayed natively to validate the translation).
type Witness struct {
	Harness string   `json:"harness"`
	Label   string   `json:"label"`
	Values  []uint64 `json:"values"`
	Clean   bool     `json:"clean"` // no violation was recorded on the path before this point
}

type Obligation struct {
	Label   string `json:"label"`
	Verdict string `json:"verdict"` // unsat | sat | unknown | trivial
	PathLen int    `json:"path_len"`
	Ms      int64  `json:"ms"`
}

// PathResult is what executing one path produces.
type PathResult struct {
	Harness      string         `json:"harness"`
	Prefix       []int64        `json:"prefix"`
	Siblings     [][]int64      `json:"siblings"`
	Status       string         `json:"status"` // done | panic | abort | error
	Detail       string         `json:"detail,omitempty"`
	Obligations  []Obligation   `json:"obligations"`
	Violations   []Violation    `json:"violations"`
	Reached      map[string]int `json:"reached"`
	Funcs        []string       `json:"funcs"`
	Blocks       []string       `json:"blocks,omitempty"` // library basic blocks first executed by this worker on this path
	Queries      int            `json:"queries"`
	SolverMs     int64          `json:"solver_ms"`
	Steps        int            `json:"steps"`
	Merged       int            `json:"merged"`
	Inconclusive []string       `json:"inconclusive,omitempty"`
	Externals    []string       `json:"externals,omitempty"`
	Witnesses    []Witness      `json:"witnesses,omitempty"`
	QUnsat       int            `json:"q_unsat"`
	QSat         int            `json:"q_sat"`
	RetryMergeLimit int         `json:"retry_merge_limit,omitempty"`
}

type Engine struct {
	prog    *ssa.Program
	pkg     *ssa.Package
	s       *Solver
	globals map[*ssa.Global]*Loc

	trace []int64 // decisions to replay
	pos   int
	taken []int64
	sibs  [][]int64

	nondets []Nondet
	res     *PathResult
	harness string
	funcs   map[string]bool
	allocNo map[*Loc]uint64 // numbering of allocations whose address was converted to uintptr
	newBlocks []string
	exts    map[string]bool
	conc    map[string]int64

	steps    int
	maxSteps int
	maxEnum  int
	unwind   int
	merged   int
	pureDepth int
	site     string
	siteFn   *ssa.Function
	siteTok  token.Pos
	clock    T // last symbolic instant (monotone clock)
	mapOrder int
	noMerge  bool
	thorough bool
	// merge regions entered from forking mode are numbered 1,2,...; see Request.MergeLimit
	mergeLimit  int
	mergeCount  int
	regionOpen  bool // inside such a region
	regionSpec  bool // the open region is specification code (vpure): cannot fork
	verbose  bool
	callDepth int
	accOn     bool
	accLib    bool
	lastPanic string
	clockMax  T
	clockBase *T
	thr       *threadLog
	jsonBlobs map[*Loc]IfaceV
	dumpDir   string
	dumped    int
	dumpMax   int
	curIns    ssa.Instruction
	wantWitness bool
	panicAcc  T
	panicMsgs []string
}

func (e *Engine) nondet(label string, w int) T {
	name := fmt.Sprintf("nd%d_%s", len(e.nondets), sanitize(label))
	e.nondets = append(e.nondets, Nondet{Name: name, Label: label, W: w})
	e.s.declare(name, w)
	return T{s: name, w: w}
}
func sanitize(s string) string {
	return strings.Map(func(r rune) rune {
		if r >= 'a' && r <= 'z' || r >= 'A' && r <= 'Z' || r >= '0' && r <= '9' {
			return r
		}
		return '_'
	}, s)
}

func (e *Engine) inPure() bool { return e.pureDepth > 0 }

// decide consumes or creates one decision. opts are the feasible decision
// values in exploration order; cond(v) gives the constraint for value v.
func (e *Engine) replayed() (int64, bool) {
	if e.pos < len(e.trace) {
		k := e.trace[e.pos]
		e.pos++
		e.taken = append(e.taken, k)
		return k, true
	}
	return 0, false
}
func (e *Engine) record(feas []int64) int64 {
	if len(feas) == 0 {
		panic(pathAbort{"infeasible"})
	}
	for _, alt := range feas[1:] {
		pre := append(append([]int64{}, e.taken...), alt)
		e.sibs = append(e.sibs, pre)
	}
	e.pos++
	e.taken = append(e.taken, feas[0])
	return feas[0]
}

// choose among option constraints; returns index of the chosen option.
func (e *Engine) choose(opts []T) int {
	if e.inPure() {
		panic(engineError{"fork attempted in guarded (pure) code at " + e.where()})
	}
	if k, ok := e.replayed(); ok {
		e.s.assert(opts[k])
		return int(k)
	}
	feas := []int64{}
	for i, o := range opts {
		if o.isFalse() {
			continue
		}
		if o.isTrue() {
			feas = append(feas, int64(i))
			continue
		}
		if r := e.s.checkWith(o); r != "unsat" {
			feas = append(feas, int64(i))
		}
	}
	k := e.record(feas)
	e.s.assert(opts[k])
	return int(k)
}

// branch on a boolean term; concrete conditions do not create decisions.
func (e *Engine) branch(c T) bool {
	if c.isC {
		return c.c == 1
	}
	return e.choose([]T{c, tnot(c)}) == 0
}

// enumerate lists the feasible values of term t under extra constraint c
// (at most maxEnum; more aborts the path as bound exceeded).
func (e *Engine) enumerate(t T, c T) []int64 {
	var vals []int64
	e.s.in.WriteString("(push)\n")
	if !c.isTrue() {
		e.s.in.WriteString("(assert " + c.s + ")\n")
	}
	for {
		r := e.s.check()
		if r == "unsat" {
			break
		}
		if r == "unknown" {
			e.s.in.WriteString("(pop)\n")
			panic(pathAbort{"solver unknown while concretising " + e.where()})
		}
		v, ok := e.s.termValue(t)
		if !ok {
			e.s.in.WriteString("(pop)\n")
			panic(engineError{"cannot read model value of " + t.s})
		}
		vals = append(vals, int64(v))
		if len(vals) > e.maxEnum {
			e.s.in.WriteString("(pop)\n")
			panic(pathAbort{fmt.Sprintf("concretisation bound (%d values) exceeded at %s", e.maxEnum, e.where())})
		}
		e.s.in.WriteString("(assert (not (= " + t.s + " " + bv(v, t.w).s + ")))\n")
	}
	e.s.in.WriteString("(pop)\n")
	sort.Slice(vals, func(i, j int) bool { return vals[i] < vals[j] })
	return vals
}

// concretizeVal turns a term into a concrete value by case split over its
// feasible values (unsigned interpretation).
func (e *Engine) concretizeVal(t T, what string) uint64 {
	if t.isC {
		return t.c
	}
	if v, ok := e.conc[t.s]; ok {
		return uint64(v)
	}
	if e.inPure() {
		panic(engineError{"concretisation attempted in guarded (pure) code: " + what + " at " + e.where()})
	}
	var v int64
	if k, ok := e.replayed(); ok {
		v = k
	} else {
		v = e.record(e.enumerate(t, tbool(true)))
	}
	e.s.assert(teq(t, bv(uint64(v), t.w)))
	e.conc[t.s] = v
	return uint64(v)
}

// concretizeIndex: index term into [0,n) following Go's index semantics;
// out-of-range ends the path with a Go panic.
func (e *Engine) concretizeIndex(idx T, signed bool, n int, what string) int {
	if idx.isC {
		v := int64(idx.c)
		if signed {
			v = sext64(idx.c, idx.w)
		}
		if v < 0 || v >= int64(n) {
			panic(goPanic{fmt.Sprintf("index out of range [%d] with length %d (%s)", v, n, what)})
		}
		return int(v)
	}
	if v, ok := e.conc[idx.s]; ok && v >= 0 && v < int64(n) {
		return int(v)
	}
	if e.inPure() {
		panic(engineError{"index concretisation attempted in guarded (pure) code: " + what + " at " + e.where()})
	}
	inb := inBounds(idx, n) // negative signed values are huge unsigned
	var v int64
	if k, ok := e.replayed(); ok {
		v = k
	} else {
		feas := e.enumerate(idx, inb)
		if e.s.checkWith(tnot(inb)) != "unsat" {
			feas = append(feas, -1)
		}
		v = e.record(feas)
	}
	if v < 0 {
		e.s.assert(tnot(inb))
		panic(goPanic{fmt.Sprintf("index out of range (symbolic) with length %d (%s)", n, what)})
	}
	e.s.assert(teq(idx, bv(uint64(v), idx.w)))
	e.conc[idx.s] = v
	return int(v)
}

type frame struct {
	fn    *ssa.Function
	env   map[ssa.Value]Value
	bind  []Value
	rets  []retRec // pure mode
	visit map[*ssa.BasicBlock]int
	active map[*ssa.BasicBlock]int
	escapes int
}

func (e *Engine) constVal(c *ssa.Const) Value {
	t := c.Type()
	if c.Value == nil {
		return zeroValue(t)
	}
	switch u := t.Underlying().(type) {
	case *types.Basic:
		if u.Info()&types.IsString != 0 {
			return StringV{s: constant.StringVal(c.Value)}
		}
		if u.Info()&types.IsBoolean != 0 {
			return tbool(constant.BoolVal(c.Value))
		}
		if u.Info()&types.IsInteger != 0 {
			w := widthOf(t)
			if v, ok := constant.Int64Val(c.Value); ok {
				return bv(uint64(v), w)
			}
			v, _ := constant.Uint64Val(c.Value)
			return bv(v, w)
		}
		if u.Info()&types.IsFloat != 0 {
			return OpaqueV{what: "float"}
		}
	}
	panic(engineError{"const " + c.String()})
}

func (e *Engine) get(f *frame, v ssa.Value) Value {
	switch x := v.(type) {
	case *ssa.Const:
		return e.constVal(x)
	case *ssa.Global:
		l, ok := e.globals[x]
		if !ok {
			l = newLoc(x.Type().(*types.Pointer).Elem())
			e.globals[x] = l
		}
		return Ptr{l: l}
	case *ssa.Function:
		return ClosureV{fn: x}
	case *ssa.Builtin:
		return x
	case *ssa.FreeVar:
		for i, fv := range f.fn.FreeVars {
			if fv == x {
				return f.bind[i]
			}
		}
	}
	r, ok := f.env[v]
	if !ok {
		panic(engineError{fmt.Sprintf("unbound %s in %s", v.Name(), f.fn)})
	}
	return r
}

func (e *Engine) step() {
	e.steps++
	if e.steps > e.maxSteps {
		panic(pathAbort{"step budget exceeded (unwinding bound)"})
	}
}

// call executes fn in forking mode.
func (e *Engine) call(fn *ssa.Function, args []Value, bind []Value) Value {
	if e.inPure() {
		return e.callPure(fn, args, bind, tbool(true))
	}
	if fn.Blocks == nil {
		panic(engineError{"no body: " + fn.String()})
	}
	e.callDepth++
	if e.callDepth > 200 {
		panic(pathAbort{"call depth exceeded"})
	}
	defer func() { e.callDepth-- }()
	e.funcs[fn.String()] = true
	f := &frame{fn: fn, env: make(map[ssa.Value]Value, 32), bind: bind, visit: map[*ssa.BasicBlock]int{}}
	for i, p := range fn.Params {
		f.env[p] = args[i]
	}
	var prev *ssa.BasicBlock
	var arrs []arrival // set when the block is entered after a merged region
	b := fn.Blocks[0]
	for {
		var next *ssa.BasicBlock
		var nextArrs []arrival
		e.cover(b)
		f.visit[b]++
		if f.visit[b] > e.unwind {
			panic(pathAbort{fmt.Sprintf("unwinding bound %d exceeded in %s block %d", e.unwind, fn.Name(), b.Index)})
		}
		for _, ins := range b.Instrs {
			e.step()
			e.curIns = ins
			switch x := ins.(type) {
			case *ssa.Phi:
				if arrs != nil {
					f.env[x] = e.phiFromArrivals(f, b, x, arrs)
					break
				}
				for i, p := range b.Preds {
					if p == prev {
						f.env[x] = e.get(f, x.Edges[i])
					}
				}
			case *ssa.If:
				c := e.get(f, x.Cond).(T)
				e.site, e.siteFn, e.siteTok = "", fn, x.Cond.Pos()
				if !c.isC {
					join := postDoms(fn).ipdom[b]
					mergeOK, opened := false, false
					if !e.noMerge && join != nil && simpleRegion(fn, b, join) {
						mergeOK, opened = e.enterRegion(false)
					}
					if mergeOK {
						var a0, a1 []arrival
						func() {
							if opened {
								defer e.leaveRegion()
							}
							if !e.accOn {
								e.accOn = true
								e.panicAcc = tbool(false)
								e.panicMsgs = nil
								defer e.flushPanicAcc()
							}
							a0 = e.pureRegion(f, b.Succs[0], []arrival{{b, c, nil}}, join)
							a1 = e.pureRegion(f, b.Succs[1], []arrival{{b, tnot(c), nil}}, join)
						}()
						next = join
						nextArrs = append(a0, a1...)
						e.merged++
						break
					}
				}
				if e.branch(c) {
					next = b.Succs[0]
				} else {
					next = b.Succs[1]
				}
			case *ssa.Jump:
				next = b.Succs[0]
			case *ssa.Return:
				return e.retVal(f, x)
			case *ssa.Panic:
				panic(goPanic{e.panicMsg(e.get(f, x.X))})
			case *ssa.Store:
				e.doStore(e.get(f, x.Addr), x.Val.Type(), e.get(f, x.Val), tbool(true))
			case *ssa.MapUpdate:
				m := e.get(f, x.Map).(MapV)
				e.mapStore(m.m, e.get(f, x.Key), e.get(f, x.Value), tbool(true))
			case *ssa.DebugRef:
			case *ssa.RunDefers:
			case ssa.Value:
				f.env[x] = e.eval(f, x, tbool(true))
			default:
				panic(engineError{fmt.Sprintf("unsupported instr %T in %s", ins, fn)})
			}
		}
		prev, b, arrs = b, next, nextArrs
	}
}

func (e *Engine) retVal(f *frame, x *ssa.Return) Value {
	switch len(x.Results) {
	case 0:
		return nil
	case 1:
		return e.get(f, x.Results[0])
	default:
		tv := TupleV{}
		for _, r := range x.Results {
			tv.v = append(tv.v, e.get(f, r))
		}
		return tv
	}
}

func (e *Engine) panicMsg(v Value) string {
	if iv, ok := v.(IfaceV); ok {
		if s, ok := iv.v.(StringV); ok {
			return s.s
		}
	}
	return "panic"
}

func (e *Engine) valEq(a, b Value) T {
	if y, ok := b.(IteV); ok {
		if _, ok2 := a.(IteV); !ok2 {
			return tite(y.c, e.valEq(a, y.a), e.valEq(a, y.b))
		}
	}
	switch x := a.(type) {
	case IteV:
		return tite(x.c, e.valEq(x.a, b), e.valEq(x.b, b))
	case T:
		return teq(x, b.(T))
	case Ptr:
		switch y := b.(type) {
		case Ptr:
			p, q := norm(x), norm(y)
			return tbool(p.l == q.l && p.off == q.off)
		case MPtr:
			return e.valEq(b, a)
		}
	case MPtr:
		r := tbool(false)
		for i, c := range x.cands {
			r = tor(r, tand(x.conds[i], e.valEq(c, b)))
		}
		return r
	case StructV:
		r := tbool(true)
		for i := range x.f {
			r = tand(r, e.valEq(x.f[i], b.(StructV).f[i]))
		}
		return r
	case ArrayV:
		r := tbool(true)
		for i := range x.e {
			r = tand(r, e.valEq(x.e[i], b.(ArrayV).e[i]))
		}
		return r
	case IfaceV:
		y := b.(IfaceV)
		if x.typ == nil || y.typ == nil {
			return tbool(x.typ == nil && y.typ == nil)
		}
		if !types.Identical(x.typ, y.typ) {
			return tbool(false)
		}
		return e.valEq(x.v, y.v)
	case RType:
		y := b.(RType)
		if x.sym != nil || y.sym != nil {
			return tbool(x.sym == y.sym)
		}
		return tbool(types.Identical(x.t, y.t))
	case StringV:
		return tbool(x.s == b.(StringV).s)
	case ClosureV:
		return tbool(x.fn == b.(ClosureV).fn)
	case SliceV: // only nil comparison is legal Go
		return tbool(x.isNil && b.(SliceV).isNil)
	case MapV:
		return tbool(x.m == b.(MapV).m)
	case RValue:
		return tbool(x == b.(RValue))
	case OpaqueV:
		return tbool(true)
	case nil:
		return tbool(b == nil)
	}
	panic(engineError{fmt.Sprintf("valEq %T", a)})
}

// ---- maps

func (e *Engine) mapFindConds(m *MapObj, k Value) []T {
	cs := make([]T, len(m.keys))
	for i, mk := range m.keys {
		cs[i] = e.valEq(mk, k)
	}
	return cs
}

// mapFind returns the entry index for key k or -1 (forks on symbolic keys).
func (e *Engine) mapFind(m *MapObj, k Value) int {
	if m == nil {
		return -1
	}
	e.logMap(m, false)
	cs := e.mapFindConds(m, k)
	opts := make([]T, len(cs)+1)
	none := tbool(true)
	allC := true
	for i, c := range cs {
		opts[i] = tand(c, none) // first match wins (keys are distinct on feasible paths)
		none = tand(none, tnot(c))
		if !c.isC {
			allC = false
		}
	}
	opts[len(cs)] = none
	if allC {
		for i, c := range cs {
			if c.isTrue() {
				return i
			}
		}
		return -1
	}
	e.site = "map lookup"
	k2 := e.choose(opts)
	if k2 == len(cs) {
		return -1
	}
	return k2
}

func (e *Engine) mapStore(m *MapObj, k, v Value, guard T) {
	if m == nil {
		panic(goPanic{"assignment to entry in nil map"})
	}
	if !guard.isTrue() {
		panic(engineError{"guarded map update unsupported"})
	}
	e.logMap(m, true)
	i := e.mapFind(m, k)
	if i < 0 {
		l := newLoc(m.vt)
		l.store(v)
		m.keys = append(m.keys, k)
		m.vals = append(m.vals, l)
		return
	}
	m.vals[i].store(v)
}

func (e *Engine) mapDelete(m *MapObj, k Value) {
	if m == nil {
		return
	}
	e.logMap(m, true)
	i := e.mapFind(m, k)
	if i >= 0 {
		m.keys = append(m.keys[:i:i], m.keys[i+1:]...)
		m.vals = append(m.vals[:i:i], m.vals[i+1:]...)
	}
}

// ---- stores and loads through pointers

func (e *Engine) doStore(p Value, t types.Type, v Value, guard T) {
	switch x := p.(type) {
	case Ptr:
		if x.l == nil {
			if guard.isTrue() {
				panic(goPanic{"nil pointer dereference (store)"})
			}
			e.purePanic(guard, "nil pointer dereference (store)")
			return
		}
		if guard.isTrue() {
			storeTyped(x, t, v)
			return
		}
		old := loadTyped(x, t)
		storeTyped(x, t, e.iteVal(guard, v, old))
	case MPtr:
		for i, c := range x.cands {
			e.doStore(c, t, v, tand(guard, x.conds[i]))
		}
	default:
		panic(engineError{fmt.Sprintf("store through %T", p)})
	}
}

func (e *Engine) doLoad(p Value, t types.Type, guard T) Value {
	switch x := p.(type) {
	case Ptr:
		if x.l == nil {
			if guard.isTrue() && !e.inPure() {
				panic(goPanic{"nil pointer dereference (load)"})
			}
			e.purePanic(guard, "nil pointer dereference (load)")
			return zeroValue(t)
		}
		return loadTyped(x, t)
	case MPtr:
		if len(x.cands) == 0 {
			panic(engineError{"load through empty pointer set"})
		}
		val := e.doLoad(x.cands[len(x.cands)-1], t, tand(guard, x.conds[len(x.cands)-1]))
		for i := len(x.cands) - 2; i >= 0; i-- {
			val = e.iteVal(x.conds[i], e.doLoad(x.cands[i], t, tand(guard, x.conds[i])), val)
		}
		return val
	}
	panic(engineError{fmt.Sprintf("load through %T", p)})
}

// purePanic: a panic reached under a guard inside merged code must be
// infeasible; otherwise the (specification) code is wrong or the library
// panics on a merged path — both fail closed.
func (e *Engine) purePanic(guard T, msg string) {
	e.purePanicIf(guard, msg)
}

// inBounds: unsigned idx < n, taking care of n not fitting the index width.
func inBounds(idx T, n int) T {
	if idx.w < 64 && uint64(n) > wmask(idx.w) {
		return tbool(true)
	}
	return binop("<", idx, bv(uint64(n), idx.w), false)
}

// where describes the current decision site (formatted lazily).
func (e *Engine) where() string {
	if e.site != "" || e.siteFn == nil {
		return e.site
	}
	return fmt.Sprintf("%s @ %s", e.siteFn.Name(), e.prog.Fset.Position(e.siteTok))
}

// ---- block coverage of the library (package under test, harness overlay files excluded)

// reportedBlocks: blocks this worker process has already reported (coverage is a union,
// so every block is sent to the coordinator once per worker).
var reportedBlocks = map[*ssa.BasicBlock]bool{}

func (e *Engine) cover(b *ssa.BasicBlock) {
	if reportedBlocks[b] {
		return
	}
	reportedBlocks[b] = true
	if id := blockID(e.prog, e.pkg, b); id != "" {
		e.newBlocks = append(e.newBlocks, id)
	}
}

// blockID names a basic block of a library function as "<function>#<index>"; instances of
// generic functions are mapped to their origin. "" for harness code and other packages.
func blockID(prog *ssa.Program, pkg *ssa.Package, b *ssa.BasicBlock) string {
	fn := b.Parent()
	root := fn
	for root.Parent() != nil {
		root = root.Parent()
	}
	if o := root.Origin(); o != nil {
		root = o
	}
	if root.Pkg != pkg {
		return ""
	}
	pos := fn.Pos()
	if !pos.IsValid() {
		pos = root.Pos()
	}
	if !pos.IsValid() || strings.Contains(prog.Fset.Position(pos).Filename, "zz_verif_") {
		return ""
	}
	name := fn.String()
	if o := fn.Origin(); o != nil {
		name = o.String()
	} else if fn.Parent() != nil && root != fn {
		// anonymous function of a generic instance: name it after the origin
		name = root.String() + strings.TrimPrefix(fn.String(), rootInstanceName(fn))
	}
	return name + "#" + strconv.Itoa(b.Index)
}

func rootInstanceName(fn *ssa.Function) string {
	r := fn
	for r.Parent() != nil {
		r = r.Parent()
	}
	return r.String()
}

// enterRegion is called when forking execution is about to run a region merged.
// ok=false: the region must be run forking instead (MergeLimit reached). opened=true: this
// call opened a top-level region and the caller must call leaveRegion when it ends.
func (e *Engine) enterRegion(spec bool) (ok, opened bool) {
	if e.inPure() || e.regionOpen {
		return true, false // nested: part of the enclosing region
	}
	if !spec && e.mergeLimit > 0 && e.mergeCount+1 >= e.mergeLimit {
		return false, false
	}
	e.mergeCount++
	e.regionOpen, e.regionSpec = true, spec
	return true, true
}

func (e *Engine) leaveRegion() { e.regionOpen = false }
