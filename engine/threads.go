package main

import (
	"fmt"
	"sort"
	"strings"

	"golang.org/x/tools/go/ssa"
)

// Thread-modular race analysis (C13): vthreads(f1, f2) runs two closures one after the
// other from (almost) the same shared state, logs every access to memory that existed
// before the threads started together with the set of mutexes held, and reports every
// pair of accesses to overlapping memory, at least one a write, from different threads,
// with disjoint locksets. With mutexes as the only synchronisation in the library such a
// pair is unordered by happens-before in some schedule: a data race.

type access struct {
	root  *Loc
	mapID int
	off   int64
	n     int64
	write bool
	held  string
	site  string
	what  string
}

type threadLog struct {
	id       int
	snapshot int
	held     map[*Loc]bool
	log      []access
	seen     map[string]bool
}

func (e *Engine) heldKey() string {
	var ks []string
	for l := range e.thr.held {
		ks = append(ks, fmt.Sprint(l.id))
	}
	sort.Strings(ks)
	return strings.Join(ks, ",")
}

func (e *Engine) sitePos() string {
	if e.curIns == nil {
		return "?"
	}
	p := e.prog.Fset.Position(e.curIns.Pos())
	if !p.IsValid() {
		if v, ok := e.curIns.(ssa.Value); ok {
			for _, r := range *v.Referrers() {
				if q := e.prog.Fset.Position(r.Pos()); q.IsValid() {
					p = q
					break
				}
			}
		}
	}
	fn := ""
	if e.curIns.Parent() != nil {
		fn = e.curIns.Parent().Name()
	}
	return fmt.Sprintf("%s (%s:%d)", fn, p.Filename[strings.LastIndex(p.Filename, "/")+1:], p.Line)
}

func (e *Engine) logAccess(p Ptr, n int64, write bool) {
	t := e.thr
	if t == nil || p.l == nil || n == 0 {
		return
	}
	q := norm(p)
	if q.l.id > t.snapshot {
		return // allocated by the thread itself
	}
	a := access{root: q.l, off: q.off, n: n, write: write, held: e.heldKey(), site: e.sitePos(), what: q.l.typ.String()}
	k := fmt.Sprintf("%d/%d/%d/%v/%s/%s", a.root.id, a.off, a.n, a.write, a.held, a.site)
	if t.seen[k] {
		return
	}
	t.seen[k] = true
	t.log = append(t.log, a)
}

func (e *Engine) logMap(m *MapObj, write bool) {
	t := e.thr
	if t == nil || m == nil || m.id > t.snapshot {
		return
	}
	a := access{mapID: m.id, n: 1, write: write, held: e.heldKey(), site: e.sitePos(), what: "map"}
	k := fmt.Sprintf("m%d/%v/%s/%s", m.id, write, a.held, a.site)
	if t.seen[k] {
		return
	}
	t.seen[k] = true
	t.log = append(t.log, a)
}

func disjointHeld(a, b string) bool {
	if a == "" || b == "" {
		return true
	}
	sa := map[string]bool{}
	for _, x := range strings.Split(a, ",") {
		sa[x] = true
	}
	for _, x := range strings.Split(b, ",") {
		if sa[x] {
			return false
		}
	}
	return true
}

// runThreads executes the closures as threads 1..n and returns the races found.
func (e *Engine) runThreads(fs []ClosureV) []string {
	snapshot := locCounter
	var logs [][]access
	for i, c := range fs {
		e.thr = &threadLog{id: i + 1, snapshot: snapshot, held: map[*Loc]bool{}, seen: map[string]bool{}}
		accessHook = e.logAccess
		func() {
			defer func() {
				accessHook = nil
			}()
			e.call(c.fn, nil, c.bind)
		}()
		logs = append(logs, e.thr.log)
		e.thr = nil
	}
	var races []string
	seen := map[string]bool{}
	for i := 0; i < len(logs); i++ {
		for j := i + 1; j < len(logs); j++ {
			for _, a := range logs[i] {
				for _, b := range logs[j] {
					if !(a.write || b.write) || !disjointHeld(a.held, b.held) {
						continue
					}
					same := false
					if a.root != nil && a.root == b.root {
						same = a.off < b.off+b.n && b.off < a.off+a.n
					} else if a.root == nil && b.root == nil {
						same = a.mapID == b.mapID
					}
					if !same {
						continue
					}
					r := fmt.Sprintf("%s of %s at %s vs %s at %s", rw(a.write), a.what, a.site, rw(b.write), b.site)
					k := a.site + "|" + b.site
					if !seen[k] {
						seen[k] = true
						races = append(races, r)
					}
				}
			}
		}
	}
	return races
}

func rw(w bool) string {
	if w {
		return "write"
	}
	return "read"
}
