// gosym: bounded symbolic execution of Go SSA into SMT-LIB2 for /verif.
//
//	gosym worker  -repo /repo -harness-dir DIR [-tags t1,t2]     (serves path requests on stdin)
//	gosym run     -repo /repo -harness-dir DIR -harness A,B -j 16 -out result.json
//	gosym list    -repo /repo -harness-dir DIR                   (lists Verif* harness functions)
package main

import (
	"bufio"
	"runtime/pprof"
	"go/token"
	"go/types"
	"encoding/json"
	"flag"
	"fmt"
	"os"
	"path/filepath"
	"runtime/debug"
	"sort"
	"strings"

	"golang.org/x/tools/go/packages"
	"golang.org/x/tools/go/ssa"
	"golang.org/x/tools/go/ssa/ssautil"
)

type Config struct {
	Repo       string
	HarnessDir string
	Tags       string
	Solver     string
	TimeoutMs  int
	MaxSteps   int
	MaxEnum    int
	Unwind     int
	NoMerge    bool
	DumpDir    string
	Tier       string // quick | thorough: what the harness intrinsic vthorough() reports
}

func addCommon(fs *flag.FlagSet, c *Config) {
	fs.StringVar(&c.Repo, "repo", "/repo", "repository root")
	fs.StringVar(&c.HarnessDir, "harness-dir", "/verif/harness", "directory with harness overlay files (package ecs)")
	fs.StringVar(&c.Tags, "tags", "", "build tags for /repo")
	fs.StringVar(&c.Tier, "tier", "quick", "tier reported to harnesses by vthorough()")
	fs.StringVar(&c.Solver, "solver", "z3", "solver binary (z3, z3-new, cvc5)")
	fs.IntVar(&c.TimeoutMs, "timeout-ms", 60000, "per-query solver timeout")
	fs.IntVar(&c.MaxSteps, "max-steps", 30000000, "SSA instruction budget per path")
	fs.IntVar(&c.MaxEnum, "max-enum", 300, "max feasible values when concretising one term")
	fs.IntVar(&c.Unwind, "unwind", 600, "max visits of one block per frame")
	fs.BoolVar(&c.NoMerge, "no-merge", false, "disable if-conversion of library code (differential mode)")
	fs.StringVar(&c.DumpDir, "dump-dir", "", "write each sat/unsat obligation as standalone .smt2 here")
}

type loaded struct {
	prog *ssa.Program
	pkg  *ssa.Package
}

func load(c *Config) *loaded {
	ov := map[string][]byte{}
	files, _ := filepath.Glob(filepath.Join(c.HarnessDir, "*.go"))
	sort.Strings(files)
	for _, f := range files {
		if strings.HasSuffix(f, "_test.go") {
			continue
		}
		b, err := os.ReadFile(f)
		if err != nil {
			fatal("read harness: %v", err)
		}
		ov[filepath.Join(c.Repo, "ecs", "zz_verif_"+filepath.Base(f))] = b
	}
	cfg := &packages.Config{Mode: packages.LoadAllSyntax, Dir: c.Repo, Overlay: ov,
		Env: append(os.Environ(), "GOFLAGS=-mod=mod", "GOPROXY=off")}
	if c.Tags != "" {
		cfg.BuildFlags = []string{"-tags=" + c.Tags}
	}
	pkgs, err := packages.Load(cfg, "./ecs")
	if err != nil {
		fatal("load: %v", err)
	}
	if packages.PrintErrors(pkgs) > 0 {
		fatal("package errors")
	}
	prog, spkgs := ssautil.AllPackages(pkgs, ssa.InstantiateGenerics)
	prog.Build()
	return &loaded{prog: prog, pkg: spkgs[0]}
}

func fatal(f string, a ...any) {
	fmt.Fprintf(os.Stderr, "gosym: "+f+"\n", a...)
	os.Exit(3)
}

type Request struct {
	Harness string  `json:"harness"`
	Prefix  []int64 `json:"prefix"`
	Witness bool    `json:"witness"`
	// MergeLimit > 0: only the first MergeLimit-1 merge regions entered from forking mode are
	// if-converted, later ones are executed forking (retry after a merged region met something
	// it cannot handle without forking). 0 = no limit.
	MergeLimit int `json:"merge_limit,omitempty"`
}

func main() {
	if len(os.Args) < 2 {
		fatal("usage: gosym worker|run|list ...")
	}
	switch os.Args[1] {
	case "worker":
		workerMain(os.Args[2:])
	case "run":
		runMain(os.Args[2:])
	case "list":
		listMain(os.Args[2:])
	case "scan":
		scanMain(os.Args[2:])
	case "blocks":
		blocksMain(os.Args[2:])
	default:
		fatal("unknown command %s", os.Args[1])
	}
}

func listMain(args []string) {
	var c Config
	fs := flag.NewFlagSet("list", flag.ExitOnError)
	addCommon(fs, &c)
	fs.Parse(args)
	ld := load(&c)
	var names []string
	for name, m := range ld.pkg.Members {
		if _, ok := m.(*ssa.Function); ok && strings.HasPrefix(name, "Verif") {
			names = append(names, name)
		}
	}
	sort.Strings(names)
	for _, n := range names {
		fmt.Println(n)
	}
}

func workerMain(args []string) {
	var c Config
	fs := flag.NewFlagSet("worker", flag.ExitOnError)
	addCommon(fs, &c)
	fs.Parse(args)
	debug.SetGCPercent(400)
	ld := load(&c)
	if pf := os.Getenv("GOSYM_PROF"); pf != "" {
		f, _ := os.Create(pf)
		pprof.StartCPUProfile(f)
		defer pprof.StopCPUProfile()
	}
	solver := newSolver(c.Solver, c.TimeoutMs)
	in := bufio.NewReaderSize(os.Stdin, 1<<20)
	out := bufio.NewWriter(os.Stdout)
	fmt.Fprintln(out, `{"ready":true}`)
	out.Flush()
	n := 0
	lastHarness := ""
	for {
		line, err := in.ReadString('\n')
		if err != nil {
			return
		}
		var req Request
		if err := json.Unmarshal([]byte(line), &req); err != nil {
			fatal("bad request: %v", err)
		}
		n++
		// keep solver memory bounded, and never let the terms one harness defined slow down the
		// next one (a z3 that served thousands of small paths answers a hard query much later)
		if n%100 == 0 || req.Harness != lastHarness {
			solver.close()
			solver = newSolver(c.Solver, c.TimeoutMs)
		}
		lastHarness = req.Harness
		res := runPath(ld, solver, &c, req)
		b, _ := json.Marshal(res)
		out.Write(b)
		out.WriteByte('\n')
		out.Flush()
	}
}

// runPath executes one path of a harness under a decision prefix.
func runPath(ld *loaded, s *Solver, c *Config, req Request) (res *PathResult) {
	res = &PathResult{Harness: req.Harness, Prefix: req.Prefix, Reached: map[string]int{}}
	fn := ld.pkg.Func(req.Harness)
	if fn == nil {
		res.Status, res.Detail = "error", "no such harness"
		return
	}
	e := &Engine{prog: ld.prog, pkg: ld.pkg, s: s, globals: map[*ssa.Global]*Loc{}, trace: req.Prefix,
		res: res, harness: req.Harness, funcs: map[string]bool{}, exts: map[string]bool{}, conc: map[string]int64{},
		maxSteps: c.MaxSteps, maxEnum: c.MaxEnum, unwind: c.Unwind, noMerge: c.NoMerge, mergeLimit: req.MergeLimit, thorough: c.Tier == "thorough", clock: bv(0, 64), wantWitness: req.Witness, dumpDir: c.DumpDir, dumpMax: 3}
	curSolver = s
	q0, d0 := s.queries, s.dur
	u0, s0 := s.nUnsat, s.nSat
	s.push()
	func() {
		defer func() {
			if x := recover(); x != nil {
				switch p := x.(type) {
				case goPanic:
					res.Status, res.Detail = "panic", p.msg
					// an uncaught panic of the harness is a violation (label no-panic)
					if s.check() != "unsat" {
						e.recordViolation("no-panic", "panic", p.msg)
					}
				case memViolation:
					res.Status, res.Detail = "panic", "memory-safety: "+p.msg
					if s.check() != "unsat" {
						e.recordViolation("memory-safety", "memory-safety", p.msg)
					}
				case pathAbort:
					res.Status, res.Detail = "abort", p.why
					if !benignAbort(p.why) {
						res.Inconclusive = append(res.Inconclusive, p.why)
					}
				case engineError:
					res.Status, res.Detail = "error", p.msg
					if e.curIns != nil && e.curIns.Parent() != nil {
						res.Detail += fmt.Sprintf(" [in %s, %s; region spec=%v]", e.curIns.Parent().Name(), ld.prog.Fset.Position(e.curIns.Pos()), e.regionSpec)
					}
					if e.regionOpen && !e.regionSpec && strings.Contains(p.msg, "guarded (pure) code") {
						// a merged library region needed to fork: run this path again with that region (and later ones) forking
						res.Status, res.RetryMergeLimit = "retry", e.mergeCount
					}
				default:
					at := ""
					if e.curIns != nil {
						at = fmt.Sprintf(" at instruction %s in %s (%s)", e.curIns, e.curIns.Parent(), ld.prog.Fset.Position(e.curIns.Pos()))
					}
					res.Status, res.Detail = "error", fmt.Sprintf("%v%s\n%s", x, at, debug.Stack())
				}
			}
		}()
		if init := ld.pkg.Func("init"); init != nil {
			e.runInit(init)
		}
		e.call(fn, nil, nil)
		res.Status = "done"
	}()
	s.pop()
	res.Siblings = e.sibs
	res.Queries = s.queries - q0
	res.QUnsat, res.QSat = s.nUnsat-u0, s.nSat-s0
	res.SolverMs = (s.dur - d0).Milliseconds()
	res.Steps = e.steps
	res.Merged = e.merged
	for f := range e.funcs {
		res.Funcs = append(res.Funcs, f)
	}
	sort.Strings(res.Funcs)
	res.Blocks = e.newBlocks
	for f := range e.exts {
		res.Externals = append(res.Externals, f)
	}
	sort.Strings(res.Externals)
	return
}

func benignAbort(why string) bool {
	return why == "assume false" || why == "assume infeasible" || why == "infeasible" || why == "after failed check"
}

// runInit executes the package initialiser, skipping other packages' inits.
func (e *Engine) runInit(init *ssa.Function) {
	e.call(init, nil, nil)
}

// ---- coordinator

type Summary struct {
	Harnesses    []string            `json:"harnesses"`
	Paths        int                 `json:"paths"`
	PathsDone    int                 `json:"paths_done"`
	PathsPanic   int                 `json:"paths_panic"`
	PathsAbort   int                 `json:"paths_abort"`
	Obligations  int                 `json:"obligations"`
	Discharged   int                 `json:"discharged"`
	Trivial      int                 `json:"trivial"`
	Sat          int                 `json:"sat"`
	Unknown      int                 `json:"unknown"`
	Queries      int                 `json:"queries"`
	SolverS      float64             `json:"solver_s"`
	WallS        float64             `json:"wall_s"`
	Steps        int64               `json:"steps"`
	Merged       int                 `json:"merged_regions"`
	Retries      int                 `json:"paths_retried_unmerged"`
	Violations   []Violation         `json:"violations"`
	Reached      map[string]int      `json:"reached"`
	Funcs        []string            `json:"funcs"`
	Blocks       []string            `json:"blocks"`
	Externals    []string            `json:"externals"`
	Inconclusive []string            `json:"inconclusive"`
	Errors       []string            `json:"errors"`
	PerHarness   map[string]*HStat   `json:"per_harness"`
	Samples      []Obligation        `json:"samples"`
	Witnesses    []Witness           `json:"witnesses"`
	QUnsat       int                 `json:"queries_unsat"`
	QSat         int                 `json:"queries_sat"`
	PathSamples  []map[string]any    `json:"path_samples"`
	Labels       map[string]LabelSum `json:"labels"`
	Config       map[string]any      `json:"config"`
}
type HStat struct {
	Paths       int     `json:"paths"`
	Obligations int     `json:"obligations"`
	Violations  int     `json:"violations"`
	SolverS     float64 `json:"solver_s"`
	Aborts      int     `json:"aborts"`
	Panics      int     `json:"panics"`
}
type LabelSum struct {
	Unsat   int `json:"unsat"`
	Sat     int `json:"sat"`
	Trivial int `json:"trivial"`
	Unknown int `json:"unknown"`
}

// scanMain lists every potential source of run-to-run variation in the library
// (package ecs without harness files): map ranges, goroutines, select, clock and
// random sources, pointer-to-integer conversions.
func scanMain(args []string) {
	var c Config
	fs := flag.NewFlagSet("scan", flag.ExitOnError)
	addCommon(fs, &c)
	fs.Parse(args)
	ld := load(&c)
	type site struct {
		Func string `json:"func"`
		Kind string `json:"kind"`
		Pos  string `json:"pos"`
	}
	var sites []site
	seen := map[*ssa.Function]bool{}
	var visit func(fn *ssa.Function)
	visit = func(fn *ssa.Function) {
		if fn == nil || seen[fn] || fn.Blocks == nil {
			return
		}
		seen[fn] = true
		pos := ld.prog.Fset.Position(fn.Pos())
		if strings.Contains(pos.Filename, "zz_verif_") {
			return
		}
		for _, b := range fn.Blocks {
			for _, ins := range b.Instrs {
				p := ld.prog.Fset.Position(ins.Pos()).String()
				switch x := ins.(type) {
				case *ssa.Range:
					if _, ok := x.X.Type().Underlying().(*types.Map); ok {
						sites = append(sites, site{fn.String(), "map-range", p})
					}
				case *ssa.Go:
					sites = append(sites, site{fn.String(), "go", p})
				case *ssa.Select:
					sites = append(sites, site{fn.String(), "select", p})
				case *ssa.Convert:
					if isUnsafePointer(x.X.Type()) && widthOf(x.Type()) > 0 {
						sites = append(sites, site{fn.String(), "pointer-to-integer", p})
					}
				case *ssa.Call:
					if cal := x.Common().StaticCallee(); cal != nil && cal.Pkg != nil {
						switch cal.Pkg.Pkg.Path() {
						case "time", "math/rand", "math/rand/v2", "crypto/rand", "os", "runtime":
							sites = append(sites, site{fn.String(), "call " + cal.String(), p})
						}
					}
				}
			}
		}
		for _, an := range fn.AnonFuncs {
			visit(an)
		}
	}
	for _, m := range ld.pkg.Members {
		switch x := m.(type) {
		case *ssa.Function:
			visit(x)
		case *ssa.Type:
			for _, t := range []types.Type{x.Type(), types.NewPointer(x.Type())} {
				ms := ld.prog.MethodSets.MethodSet(t)
				for i := 0; i < ms.Len(); i++ {
					visit(ld.prog.MethodValue(ms.At(i)))
				}
			}
		}
	}
	sort.Slice(sites, func(i, j int) bool { return sites[i].Pos < sites[j].Pos })
	b, _ := json.MarshalIndent(sites, "", " ")
	os.Stdout.Write(b)
	fmt.Println()
}

// blocksMain lists every basic block of the library package (harness overlay excluded) as
// "<function>#<index>\t<file>:<line>": the universe for the coverage figures in the evidence.
func blocksMain(args []string) {
	var c Config
	fs := flag.NewFlagSet("blocks", flag.ExitOnError)
	addCommon(fs, &c)
	fs.Parse(args)
	ld := load(&c)
	seen := map[*ssa.Function]bool{}
	var out []string
	var add func(fn *ssa.Function)
	add = func(fn *ssa.Function) {
		if fn == nil || seen[fn] || fn.Blocks == nil {
			return
		}
		seen[fn] = true
		for _, b := range fn.Blocks {
			id := blockID(ld.prog, ld.pkg, b)
			if id == "" {
				continue
			}
			pos := token.NoPos
			for _, ins := range b.Instrs {
				if ins.Pos().IsValid() {
					pos = ins.Pos()
					break
				}
			}
			if !pos.IsValid() {
				pos = fn.Pos()
			}
			p := ld.prog.Fset.Position(pos)
			out = append(out, fmt.Sprintf("%s\t%s:%d", id, filepath.Base(p.Filename), p.Line))
		}
		for _, an := range fn.AnonFuncs {
			add(an)
		}
	}
	for _, m := range ld.pkg.Members {
		switch x := m.(type) {
		case *ssa.Function:
			add(x)
		case *ssa.Type:
			if named, ok := x.Type().(*types.Named); ok {
				for i := 0; i < named.NumMethods(); i++ {
					add(ld.prog.FuncValue(named.Method(i)))
				}
			}
		}
	}
	sort.Strings(out)
	for _, l := range out {
		fmt.Println(l)
	}
}
