package main

import (
	"fmt"
	"go/types"

	"golang.org/x/tools/go/ssa"
)

// Value is a runtime value of the symbolic interpreter:
//
//	T        scalar (bool / integer) term
//	Ptr      concrete pointer (location, byte offset); MPtr guarded pointer set
//	SliceV   slice over an array location (or a raw byte view)
//	MapV, StructV, ArrayV, IfaceV, ClosureV, StringV, TupleV
//	RType / RValue   models of reflect.Type / reflect.Value
//	OpaqueV  sync.Mutex, time.Time and friends
type Value interface{}

type Ptr struct {
	l   *Loc
	off int64
}

type SliceV struct {
	base          *Loc // array location
	off, len, cap int
	isNil         bool
	raw           bool // byte view over arbitrary memory: elements at rawp+i
	rawp          Ptr
}
type MapObj struct {
	keys []Value
	vals []*Loc
	kt   types.Type
	vt   types.Type
	id   int
}
type MapV struct{ m *MapObj }
type StructV struct{ f []Value }
type ArrayV struct{ e []Value }
type IfaceV struct {
	typ types.Type
	v   Value
}
type ClosureV struct {
	fn   *ssa.Function
	bind []Value
}
type StringV struct {
	s      string
	opaque bool
}
type TupleV struct{ v []Value }
// MapIter iterates the entries present when the range started, in the selected
// permutation; entries deleted meanwhile are skipped (Go semantics), entries added
// meanwhile are not produced (one of the behaviours Go allows).
type MapIter struct {
	m    *MapObj
	keys []Value
	vals []*Loc
	pos  int
}

// RType models a reflect.Type. sym != nil: symbolic type descriptor (C11).
type RType struct {
	t   types.Type
	sym *SymType
}

// SymType is a symbolic type descriptor: kind is a term, children concrete shape.
type SymType struct {
	kind   T // reflect.Kind value (64-bit)
	fields []*SymType
	elem   *SymType
	name   string
}

// RValue models a reflect.Value.
//
//	kind 0: invalid (zero Value)
//	kind 1: addressable value stored at p (type t)
//	kind 2: pointer value pointing to p (pointee type t)
//	kind 3: slice of n elements of type t starting at element off of array loc p.l
type RValue struct {
	kind int
	p    Ptr
	t    types.Type
	off  int
	n    int
}

type OpaqueV struct {
	what string
	t    T // payload for clocks
}

// Loc is a memory location: a leaf holding a Value, or an aggregate with kids.
type Loc struct {
	typ    types.Type
	v      Value
	kids   []*Loc
	parent *Loc
	pidx   int
	id     int
}

var sizes = types.SizesFor("gc", "amd64")

func sizeof(t types.Type) int64 { return sizes.Sizeof(t) }

func widthOf(t types.Type) int {
	switch b := t.Underlying().(type) {
	case *types.Basic:
		if b.Info()&types.IsBoolean != 0 {
			return 0
		}
		if b.Info()&types.IsInteger != 0 {
			return int(sizes.Sizeof(t)) * 8
		}
	}
	return -1
}
func isSigned(t types.Type) bool {
	if b, ok := t.Underlying().(*types.Basic); ok {
		return b.Info()&types.IsInteger != 0 && b.Info()&types.IsUnsigned == 0
	}
	return false
}
func isUnsafePointer(t types.Type) bool {
	b, ok := t.Underlying().(*types.Basic)
	return ok && b.Kind() == types.UnsafePointer
}

// leafNamed reports named struct types that the engine models as opaque leaves.
func leafNamed(t types.Type) string {
	n, ok := t.(*types.Named)
	if !ok {
		if a, ok2 := t.(*types.Alias); ok2 {
			return leafNamed(types.Unalias(a))
		}
		return ""
	}
	if n.Obj().Pkg() == nil {
		return ""
	}
	switch n.Obj().Pkg().Path() + "." + n.Obj().Name() {
	case "reflect.Value":
		return "reflect.Value"
	case "sync.Mutex":
		return "sync.Mutex"
	case "time.Time":
		return "time.Time"
	}
	return ""
}

func zeroValue(t types.Type) Value {
	switch leafNamed(t) {
	case "reflect.Value":
		return RValue{}
	case "sync.Mutex":
		return OpaqueV{what: "mutex"}
	case "time.Time":
		return OpaqueV{what: "time", t: bv(0, 64)}
	}
	switch u := t.Underlying().(type) {
	case *types.Basic:
		if u.Info()&types.IsString != 0 {
			return StringV{s: ""}
		}
		if u.Kind() == types.UnsafePointer {
			return Ptr{}
		}
		w := widthOf(t)
		if w == 0 {
			return tbool(false)
		}
		if w > 0 {
			return bv(0, w)
		}
		if u.Info()&types.IsFloat != 0 {
			return OpaqueV{what: "float"}
		}
		panic(engineError{"zeroValue basic " + t.String()})
	case *types.Pointer:
		return Ptr{}
	case *types.Slice:
		return SliceV{isNil: true}
	case *types.Map:
		return MapV{nil}
	case *types.Struct:
		f := make([]Value, u.NumFields())
		for i := range f {
			f[i] = zeroValue(u.Field(i).Type())
		}
		return StructV{f}
	case *types.Array:
		e := make([]Value, u.Len())
		for i := range e {
			e[i] = zeroValue(u.Elem())
		}
		return ArrayV{e}
	case *types.Interface:
		return IfaceV{}
	case *types.Signature:
		return ClosureV{}
	case *types.Chan:
		return OpaqueV{what: "chan"}
	}
	panic(engineError{"zeroValue " + t.String()})
}

var locCounter int

func newLoc(t types.Type) *Loc {
	locCounter++
	l := &Loc{typ: t, id: locCounter}
	if leafNamed(t) != "" {
		l.v = zeroValue(t)
		return l
	}
	switch u := t.Underlying().(type) {
	case *types.Struct:
		l.kids = make([]*Loc, u.NumFields())
		for i := range l.kids {
			k := newLoc(u.Field(i).Type())
			k.parent, k.pidx = l, i
			l.kids[i] = k
		}
	case *types.Array:
		n := int(u.Len())
		if n > 1<<20 {
			panic(engineError{fmt.Sprintf("array too large to allocate: %s", t)})
		}
		l.kids = make([]*Loc, n)
		for i := range l.kids {
			k := newLoc(u.Elem())
			k.parent, k.pidx = l, i
			l.kids[i] = k
		}
	default:
		l.v = zeroValue(t)
	}
	return l
}

func isAggregate(t types.Type) bool {
	if leafNamed(t) != "" {
		return false
	}
	switch t.Underlying().(type) {
	case *types.Struct, *types.Array:
		return true
	}
	return false
}
func isStruct(t types.Type) bool {
	if leafNamed(t) != "" {
		return false
	}
	_, ok := t.Underlying().(*types.Struct)
	return ok
}

func (l *Loc) load() Value {
	if !isAggregate(l.typ) {
		return l.v
	}
	if isStruct(l.typ) {
		f := make([]Value, len(l.kids))
		for i, x := range l.kids {
			f[i] = x.load()
		}
		return StructV{f}
	}
	e := make([]Value, len(l.kids))
	for i, x := range l.kids {
		e[i] = x.load()
	}
	return ArrayV{e}
}

func (l *Loc) store(v Value) {
	if !isAggregate(l.typ) {
		l.v = v
		return
	}
	switch x := v.(type) {
	case StructV:
		if len(x.f) != len(l.kids) {
			panic(engineError{fmt.Sprintf("store struct arity mismatch into %s", l.typ)})
		}
		for i, f := range x.f {
			l.kids[i].store(f)
		}
	case ArrayV:
		if len(x.e) != len(l.kids) {
			panic(engineError{fmt.Sprintf("store array arity mismatch into %s", l.typ)})
		}
		for i, e := range x.e {
			l.kids[i].store(e)
		}
	default:
		panic(engineError{fmt.Sprintf("store %T into aggregate %s", v, l.typ)})
	}
}

// ---- layout

var offsCache = map[*types.Struct][]int64{}

func fieldOffsets(st *types.Struct) []int64 {
	if o, ok := offsCache[st]; ok {
		return o
	}
	fs := make([]*types.Var, st.NumFields())
	for i := range fs {
		fs[i] = st.Field(i)
	}
	o := sizes.Offsetsof(fs)
	offsCache[st] = o
	return o
}

// kidOffset returns the byte offset of kid i inside aggregate type t.
func kidOffset(t types.Type, i int) int64 {
	switch u := t.Underlying().(type) {
	case *types.Struct:
		return fieldOffsets(u)[i]
	case *types.Array:
		return int64(i) * sizeof(u.Elem())
	}
	panic(engineError{"kidOffset of " + t.String()})
}

// rootOf returns the outermost enclosing location and l's byte offset in it.
func rootOf(l *Loc) (*Loc, int64) {
	var off int64
	for l.parent != nil {
		off += kidOffset(l.parent.typ, l.pidx)
		l = l.parent
	}
	return l, off
}

// norm normalises a pointer to (root allocation, absolute offset).
func norm(p Ptr) Ptr {
	if p.l == nil {
		return p
	}
	r, o := rootOf(p.l)
	return Ptr{r, o + p.off}
}

// findTyped descends from l at byte offset off to a location of type t.
func findTyped(l *Loc, off int64, t types.Type) *Loc {
	for {
		if off == 0 && types.Identical(l.typ, t) {
			return l
		}
		if !isAggregate(l.typ) {
			return nil
		}
		switch u := l.typ.Underlying().(type) {
		case *types.Struct:
			offs := fieldOffsets(u)
			next := -1
			for i := range l.kids {
				sz := sizeof(u.Field(i).Type())
				if off >= offs[i] && (off < offs[i]+sz || (sz == 0 && off == offs[i] && sizeof(t) == 0)) {
					next = i
					break
				}
			}
			if next < 0 {
				return nil
			}
			off -= offs[next]
			l = l.kids[next]
		case *types.Array:
			es := sizeof(u.Elem())
			if es == 0 {
				if off != 0 {
					return nil
				}
				if len(l.kids) == 0 {
					return newLoc(t)
				}
				l = l.kids[0]
				continue
			}
			i := off / es
			if off < 0 || i >= int64(len(l.kids)) {
				return nil
			}
			off -= i * es
			l = l.kids[i]
		}
	}
}

// resolve finds the location of static type t that p points to (nil if the
// pointer does not designate a whole typed cell of that type).
func resolve(p Ptr, t types.Type) *Loc {
	if p.l == nil {
		return nil
	}
	if p.off == 0 && types.Identical(p.l.typ, t) {
		return p.l
	}
	if p.off >= 0 {
		if l := findTyped(p.l, p.off, t); l != nil {
			return l
		}
	}
	n := norm(p)
	if n.off < 0 {
		return nil
	}
	return findTyped(n.l, n.off, t)
}

// ---- byte-level access

type leafRef struct {
	l    *Loc
	at   int64 // absolute offset of the leaf in the root
	size int64
}

func leafSize(l *Loc) int64 { return sizeof(l.typ) }

// collectLeaves lists leaves of root overlapping [off, off+n).
func collectLeaves(l *Loc, base int64, off, n int64, out *[]leafRef) {
	sz := sizeof(l.typ)
	if base+sz <= off || base >= off+n {
		if !(sz == 0) {
			return
		}
		return
	}
	if !isAggregate(l.typ) {
		*out = append(*out, leafRef{l, base, sz})
		return
	}
	for i, k := range l.kids {
		collectLeaves(k, base+kidOffset(l.typ, i), off, n, out)
	}
}

// leafBytes returns the little-endian byte terms of a scalar leaf.
func leafBytes(l *Loc) ([]T, bool) {
	switch v := l.v.(type) {
	case T:
		if v.w == 0 {
			return []T{tite(v, bv(1, 8), bv(0, 8))}, true
		}
		return tbytes(v), true
	}
	return nil, false
}
func setLeafBytes(l *Loc, bs []T) bool {
	switch v := l.v.(type) {
	case T:
		if v.w == 0 {
			l.v = tnot(teq(bs[0], bv(0, 8)))
			return true
		}
		l.v = tconcatBytes(bs)
		return true
	}
	return false
}

type memViolation struct{ msg string }

// readBytes reads n bytes at p (byte view). Padding reads as zero.
func readBytes(p Ptr, n int64) []T {
	if n == 0 {
		return nil
	}
	if p.l == nil {
		panic(goPanic{"nil pointer dereference (byte read)"})
	}
	q := norm(p)
	if q.off < 0 || q.off+n > sizeof(q.l.typ) {
		panic(memViolation{fmt.Sprintf("read of %d bytes at offset %d outside allocation of %d bytes (%s)", n, q.off, sizeof(q.l.typ), q.l.typ)})
	}
	out := make([]T, n)
	for i := range out {
		out[i] = bv(0, 8)
	}
	var ls []leafRef
	collectLeaves(q.l, 0, q.off, n, &ls)
	for _, lf := range ls {
		bs, ok := leafBytes(lf.l)
		if !ok {
			panic(memViolation{fmt.Sprintf("byte view read of non-scalar cell %s (%T)", lf.l.typ, lf.l.v)})
		}
		for k := int64(0); k < lf.size; k++ {
			a := lf.at + k
			if a >= q.off && a < q.off+n {
				out[a-q.off] = bs[k]
			}
		}
	}
	return out
}

// writeBytes writes bytes at p (byte view). Writes to padding are dropped.
func writeBytes(p Ptr, bs []T) {
	n := int64(len(bs))
	if n == 0 {
		return
	}
	if p.l == nil {
		panic(goPanic{"nil pointer dereference (byte write)"})
	}
	q := norm(p)
	if q.off < 0 || q.off+n > sizeof(q.l.typ) {
		panic(memViolation{fmt.Sprintf("write of %d bytes at offset %d outside allocation of %d bytes (%s)", n, q.off, sizeof(q.l.typ), q.l.typ)})
	}
	var ls []leafRef
	collectLeaves(q.l, 0, q.off, n, &ls)
	for _, lf := range ls {
		old, ok := leafBytes(lf.l)
		if !ok {
			panic(memViolation{fmt.Sprintf("raw byte write over non-scalar (pointer-bearing) cell %s", lf.l.typ)})
		}
		nb := append([]T{}, old...)
		for k := int64(0); k < lf.size; k++ {
			a := lf.at + k
			if a >= q.off && a < q.off+n {
				nb[k] = bs[a-q.off]
			}
		}
		setLeafBytes(lf.l, nb)
	}
}

// memmove copies n bytes from src to dst with Go's copy semantics. When both
// ranges decompose into the same sequence of whole leaves the copy is
// value-wise (pointers included); otherwise it is byte-wise over scalars.
// rawTyped reports whether a pointer-bearing leaf was copied through this raw
// path (callers decide whether that is a GC-safety violation).
func memmove(dst, src Ptr, n int64) (ptrCells int) {
	if n == 0 {
		return 0
	}
	if dst.l == nil || src.l == nil {
		panic(goPanic{"nil pointer dereference (memmove)"})
	}
	if accessHook != nil {
		accessHook(src, n, false)
		accessHook(dst, n, true)
	}
	d, s := norm(dst), norm(src)
	if d.off < 0 || d.off+n > sizeof(d.l.typ) {
		panic(memViolation{fmt.Sprintf("copy of %d bytes to offset %d outside allocation of %d bytes (%s)", n, d.off, sizeof(d.l.typ), d.l.typ)})
	}
	if s.off < 0 || s.off+n > sizeof(s.l.typ) {
		panic(memViolation{fmt.Sprintf("copy of %d bytes from offset %d outside allocation of %d bytes (%s)", n, s.off, sizeof(s.l.typ), s.l.typ)})
	}
	var dl, sl []leafRef
	collectLeaves(d.l, 0, d.off, n, &dl)
	collectLeaves(s.l, 0, s.off, n, &sl)
	same := len(dl) == len(sl)
	if same {
		for i := range dl {
			a, b := dl[i], sl[i]
			if a.at-d.off != b.at-s.off || a.size != b.size ||
				a.at < d.off || a.at+a.size > d.off+n || !sameLeafKind(a.l, b.l) {
				same = false
				break
			}
		}
	}
	if same {
		vals := make([]Value, len(sl))
		for i, lf := range sl {
			vals[i] = lf.l.v
		}
		for i, lf := range dl {
			if _, ok := vals[i].(T); !ok {
				ptrCells++
			}
			lf.l.v = vals[i]
		}
		return ptrCells
	}
	bs := readBytes(src, n)
	writeBytes(dst, bs)
	return 0
}

func sameLeafKind(a, b *Loc) bool {
	ta, oka := a.v.(T)
	tb, okb := b.v.(T)
	if oka != okb {
		return false
	}
	if oka {
		return ta.w == tb.w
	}
	return fmt.Sprintf("%T", a.v) == fmt.Sprintf("%T", b.v)
}

// valueFromBytes decodes a value of type t from little-endian bytes.
func valueFromBytes(t types.Type, bs []T) Value {
	if leafNamed(t) != "" {
		panic(memViolation{"typed view of opaque value " + t.String()})
	}
	switch u := t.Underlying().(type) {
	case *types.Basic:
		w := widthOf(t)
		if w == 0 {
			return tnot(teq(bs[0], bv(0, 8)))
		}
		if w > 0 {
			return tconcatBytes(bs[:w/8])
		}
	case *types.Struct:
		offs := fieldOffsets(u)
		f := make([]Value, u.NumFields())
		for i := range f {
			ft := u.Field(i).Type()
			f[i] = valueFromBytes(ft, bs[offs[i]:offs[i]+sizeof(ft)])
		}
		return StructV{f}
	case *types.Array:
		es := sizeof(u.Elem())
		e := make([]Value, u.Len())
		for i := range e {
			e[i] = valueFromBytes(u.Elem(), bs[int64(i)*es:int64(i+1)*es])
		}
		return ArrayV{e}
	}
	panic(memViolation{"typed view of pointer-bearing type " + t.String() + " over raw bytes"})
}

// valueToBytes encodes a pointer-free value of type t.
func valueToBytes(t types.Type, v Value) []T {
	n := sizeof(t)
	out := make([]T, n)
	for i := range out {
		out[i] = bv(0, 8)
	}
	switch u := t.Underlying().(type) {
	case *types.Basic:
		x, ok := v.(T)
		if !ok {
			panic(memViolation{"raw store of non-scalar " + t.String()})
		}
		if x.w == 0 {
			out[0] = tite(x, bv(1, 8), bv(0, 8))
		} else {
			copy(out, tbytes(x))
		}
		return out
	case *types.Struct:
		offs := fieldOffsets(u)
		for i := 0; i < u.NumFields(); i++ {
			copy(out[offs[i]:], valueToBytes(u.Field(i).Type(), v.(StructV).f[i]))
		}
		return out
	case *types.Array:
		es := sizeof(u.Elem())
		for i := 0; i < int(u.Len()); i++ {
			copy(out[int64(i)*es:], valueToBytes(u.Elem(), v.(ArrayV).e[i]))
		}
		return out
	}
	panic(memViolation{"raw store of pointer-bearing type " + t.String()})
}

// accessHook, when set, is told about every memory access (thread-modular race analysis).
var accessHook func(p Ptr, n int64, write bool)

// loadTyped loads a value of static type t through pointer p.
func loadTyped(p Ptr, t types.Type) Value {
	if p.l == nil {
		panic(goPanic{"nil pointer dereference"})
	}
	if accessHook != nil {
		accessHook(p, sizeof(t), false)
	}
	if l := resolve(p, t); l != nil {
		return l.load()
	}
	if sizeof(t) == 0 {
		return zeroValue(t)
	}
	return valueFromBytes(t, readBytes(p, sizeof(t)))
}

// storeTyped stores v of static type t through pointer p.
func storeTyped(p Ptr, t types.Type, v Value) {
	if p.l == nil {
		panic(goPanic{"nil pointer dereference"})
	}
	if accessHook != nil {
		accessHook(p, sizeof(t), true)
	}
	if l := resolve(p, t); l != nil {
		l.store(v)
		return
	}
	if sizeof(t) == 0 {
		return
	}
	writeBytes(p, valueToBytes(t, v))
}

func newArrayLoc(elem types.Type, n int) *Loc {
	return newLoc(types.NewArray(elem, int64(n)))
}
