package main

import (
	"bufio"
	"os"
	"fmt"
	"io"
	"os/exec"
	"strconv"
	"strings"
	"time"
)

// Solver wraps one long-lived SMT solver process (z3 -in) driven with push/pop.
type Solver struct {
	cmd     *exec.Cmd
	in      *bufio.Writer
	inRaw   io.WriteCloser
	out     *bufio.Reader
	widths  map[string]int    // declared / defined symbol -> width
	defs    map[string]string // term text -> name
	levels  []*level
	ndef    int
	queries int
	dur     time.Duration
	maxQ    time.Duration
	unknown int
	nUnsat  int
	nSat    int
	bin     string
	timeout int // ms per query
}

type level struct {
	defKeys []string
	syms    []string
	cmds    []string // every command sent at this level (for standalone dumps)
}

func newSolver(bin string, timeoutMs int) *Solver {
	args := []string{"-in", "-smt2"}
	if strings.Contains(bin, "cvc5") {
		args = []string{"--incremental", "--lang=smt2", "--produce-models"}
	}
	cmd := exec.Command(bin, args...)
	in, _ := cmd.StdinPipe()
	out, _ := cmd.StdoutPipe()
	cmd.Stderr = cmd.Stdout
	if err := cmd.Start(); err != nil {
		panic(err)
	}
	var win io.Writer = in
	if tee := os.Getenv("GOSYM_TEE"); tee != "" {
		f, _ := os.OpenFile(fmt.Sprintf("%s.%d", tee, os.Getpid()), os.O_CREATE|os.O_WRONLY|os.O_APPEND, 0o644)
		win = io.MultiWriter(in, f)
	}
	s := &Solver{cmd: cmd, in: bufio.NewWriterSize(win, 1<<16), inRaw: in, out: bufio.NewReaderSize(out, 1<<16),
		widths: map[string]int{}, defs: map[string]string{}, levels: []*level{{}}, bin: bin, timeout: timeoutMs}
	curSolver = s
	if strings.Contains(bin, "cvc5") {
		s.send("(set-logic QF_BV)")
	} else {
		s.send("(set-option :produce-models true)")
		if timeoutMs > 0 {
			s.send(fmt.Sprintf("(set-option :timeout %d)", timeoutMs))
		}
	}
	return s
}

func (s *Solver) close() {
	s.inRaw.Close()
	s.cmd.Process.Kill()
	s.cmd.Wait()
}

func (s *Solver) send(l string) {
	s.in.WriteString(l)
	s.in.WriteByte('\n')
	top := s.levels[len(s.levels)-1]
	top.cmds = append(top.cmds, l)
}

func sortOf(w int) string {
	if w == 0 {
		return "Bool"
	}
	return fmt.Sprintf("(_ BitVec %d)", w)
}

func (s *Solver) declare(name string, w int) {
	if _, ok := s.widths[name]; ok {
		return
	}
	s.widths[name] = w
	top := s.levels[len(s.levels)-1]
	top.syms = append(top.syms, name)
	s.send(fmt.Sprintf("(declare-fun %s () %s)", name, sortOf(w)))
}
func (s *Solver) widthOf(name string) (int, bool) {
	w, ok := s.widths[name]
	return w, ok
}
func (s *Solver) push() {
	s.in.WriteString("(push)\n")
	s.levels = append(s.levels, &level{})
}
func (s *Solver) pop() {
	top := s.levels[len(s.levels)-1]
	for _, k := range top.defKeys {
		delete(s.defs, k)
	}
	for _, n := range top.syms {
		delete(s.widths, n)
	}
	s.levels = s.levels[:len(s.levels)-1]
	s.in.WriteString("(pop)\n")
}
func (s *Solver) define(t T) string {
	if n, ok := s.defs[t.s]; ok {
		return n
	}
	s.ndef++
	n := fmt.Sprintf("d%d", s.ndef)
	s.send(fmt.Sprintf("(define-fun %s () %s %s)", n, sortOf(t.w), t.s))
	s.defs[t.s] = n
	s.widths[n] = t.w
	top := s.levels[len(s.levels)-1]
	top.defKeys = append(top.defKeys, t.s)
	top.syms = append(top.syms, n)
	return n
}
func (s *Solver) assert(t T) {
	if t.isTrue() {
		return
	}
	s.send("(assert " + t.s + ")")
}

func (s *Solver) readLine() string {
	s.in.Flush()
	line, err := s.out.ReadString('\n')
	if err != nil {
		panic(engineError{"solver died: " + err.Error()})
	}
	return strings.TrimSpace(line)
}

// check returns "sat", "unsat" or "unknown".
func (s *Solver) check() string {
	t0 := time.Now()
	s.in.WriteString("(check-sat)\n")
	line := s.readLine()
	d := time.Since(t0)
	s.queries++
	s.dur += d
	if d > s.maxQ {
		s.maxQ = d
	}
	if strings.HasPrefix(line, "(error") || (line != "sat" && line != "unsat" && line != "unknown") {
		panic(engineError{"solver error: " + line})
	}
	switch line {
	case "unknown":
		s.unknown++
	case "unsat":
		s.nUnsat++
	case "sat":
		s.nSat++
	}
	return line
}
func (s *Solver) checkWith(t T) string {
	if t.isFalse() {
		return "unsat"
	}
	s.in.WriteString("(push)\n")
	s.in.WriteString("(assert " + t.s + ")\n")
	r := s.check()
	s.in.WriteString("(pop)\n")
	return r
}

// script returns a standalone SMT-LIB script equivalent to the current
// assertion stack plus the extra assertion.
func (s *Solver) script(extra T) string {
	var b strings.Builder
	for _, l := range s.levels {
		for _, c := range l.cmds {
			if c == "(push)" || c == "(pop)" || strings.HasPrefix(c, "(set-option :timeout") {
				continue
			}
			b.WriteString(c)
			b.WriteByte('\n')
		}
	}
	b.WriteString("(assert " + extra.s + ")\n(check-sat)\n")
	return b.String()
}

// value returns the model value of a declared symbol after a sat answer.
func (s *Solver) value(name string) (uint64, bool) {
	s.in.WriteString("(get-value (" + name + "))\n")
	line := s.readLine()
	// ((name #x0000)) or ((name #b01)) or ((name true))
	i := strings.LastIndex(line, " ")
	if i < 0 {
		return 0, false
	}
	v := strings.TrimRight(line[i+1:], ")")
	switch {
	case v == "true":
		return 1, true
	case v == "false":
		return 0, true
	case strings.HasPrefix(v, "#x"):
		u, err := strconv.ParseUint(v[2:], 16, 64)
		return u, err == nil
	case strings.HasPrefix(v, "#b"):
		u, err := strconv.ParseUint(v[2:], 2, 64)
		return u, err == nil
	}
	// (_ bvN w) form
	if j := strings.Index(line, "(_ bv"); j >= 0 {
		f := strings.Fields(line[j+5:])
		u, err := strconv.ParseUint(f[0], 10, 64)
		return u, err == nil
	}
	return 0, false
}

// termValue evaluates an arbitrary term in the current model.
func (s *Solver) termValue(t T) (uint64, bool) {
	if t.isC {
		return t.c, true
	}
	return s.value(t.s)
}
